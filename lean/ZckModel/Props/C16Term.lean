/-
C16 / C01 — the automatic chunker terminates: `zck_write` in automatic mode never gets stuck re-examining a byte.

When the rolling hash asks for a boundary while the chunk is still below the automatic minimum, the C loop refuses and examines
THE SAME byte again — which feeds it to the rolling hash again.  Nothing in the loop's own logic bounds how often that can happen;
what bounds it is a property of the buzhash table: once the 48-byte window holds only copies of the byte under examination (after
at most 48 re-examinations), two boundary requests in a row would force `rol(T[b], 48) xor T[b]` to have its bits 1..14 clear, and
no entry of the table has (`kb_ok`, checked by the kernel on the table GENERATED from src/lib/buzhash/buzhash.c).  Hence at most
W + 1 examinations per byte, within the model's fuel `W + 4` (`feedAuto_terminates`), so `zck_write` / `zck_close` complete for
every content, every segmentation and every legal configuration (`run_terminates`, `closeChunks_total`), and the hypotheses
"the calls and the close complete" of `W_structure`, `write_close_read` ... are discharged (`written_back_total`).
-/
import ZckModel.Props.C16
import ZckModel.Props.C01

namespace Zck.C16T
open Zck Zck.Writer

/-! ### bits -/

theorem low_bits_zero (n : Nat) (h : n % 2^15 = 0) (i : Nat) (hi : i < 15) : n.testBit i = false := by
  have := Nat.testBit_mod_two_pow n 15 i
  rw [h, Nat.zero_testBit] at this
  simp [hi] at this
  exact this

theorem rol1_toNat (h : UInt32) : (rol32 h 1).toNat = (h.toNat <<< 1 % 2^32) ||| (h.toNat >>> 31) := by
  unfold rol32
  simp only [Nat.one_mod, Nat.succ_ne_zero, ↓reduceIte]
  rw [UInt32.toNat_or, UInt32.toNat_shiftLeft, UInt32.toNat_shiftRight]
  rfl

/-- if the low 15 bits of `h` are clear and so are those of `rol(h, 1) xor K`, then bits 1..14 of `K` are clear -/
theorem rol1_low (h K : UInt32) (hh : h.toNat % 2^15 = 0) (hk : (rol32 h 1 ^^^ K).toNat % 2^15 = 0) :
    K.toNat % 2^15 < 2 := by
  have hb : ∀ i, 1 ≤ i → i < 15 → K.toNat.testBit i = false := by
    intro i h1 h15
    have hx := low_bits_zero _ hk i h15
    rw [UInt32.toNat_xor, Nat.testBit_xor, rol1_toNat, Nat.testBit_or, Nat.testBit_mod_two_pow, Nat.testBit_shiftLeft,
      Nat.testBit_shiftRight] at hx
    have h2 : h.toNat.testBit (i - 1) = false := low_bits_zero _ hh (i - 1) (by omega)
    have h3 : h.toNat.testBit (31 + i) = false := by
      apply Nat.testBit_lt_two_pow
      have : h.toNat < 2^32 := h.toNat_lt
      calc h.toNat < 2^32 := this
        _ ≤ 2^(31 + i) := Nat.pow_le_pow_right (by omega) (by omega)
    rw [h2, h3] at hx
    simpa using hx
  have : K.toNat % 2^15 < 2^1 := by
    apply Nat.lt_pow_two_of_testBit
    intro i hi
    rw [Nat.testBit_mod_two_pow]
    by_cases h15 : i < 15
    · rw [hb i hi h15]; simp
    · simp [h15]
  simpa using this

/-- **the table property** (kernel-checked on the generated table): for every byte `b`, `rol(T[b], 48) xor T[b]` has a set bit
among bits 1..14 -/
theorem kb_ok : ∀ n, n < 256 → 2 ≤ (rol32 (tbl (UInt8.ofNat n)) 48 ^^^ tbl (UInt8.ofNat n)).toNat % 2^15 := by
  decide +kernel

theorem kb_ok_byte (b : UInt8) : 2 ≤ (rol32 (tbl b) 48 ^^^ tbl b).toNat % 2^15 := by
  have := kb_ok b.toNat b.toNat_lt
  rwa [UInt8.ofNat_toNat] at this

/-! ### the configuration the library runs with -/

structure Std (cfg : Cfg) : Prop where
  hW : cfg.W = 48
  hbits : cfg.bits = 15
  hmm : cfg.autoMin ≤ cfg.autoMax
  hmin : cfg.chunkMin ≤ cfg.autoMin
  hpos : 0 < cfg.autoMax

theorem Std.mask {cfg : Cfg} (hs : Std cfg) : cfg.mask + 1 = 2^15 := by
  unfold Cfg.mask; rw [hs.hbits]

/-- the rolling-hash window never holds more than `W` bytes -/
def BW (W : Nat) : Buz → Prop
  | none => True
  | some (win, _) => win.length ≤ W

/-- the last `m` bytes of a full window are all `b` -/
def Suf (b : UInt8) (m : Nat) (win : Bytes) : Prop :=
  win.length = 48 ∧ ∀ i, 48 - m ≤ i → i < 48 → win[i]? = some b

theorem buzUpdate_full (win : Bytes) (h : UInt32) (c : UInt8) (hl : win.length = 48) :
    buzUpdate 48 (some (win, h)) c =
      (some (win.drop 1 ++ [c], rol32 h 1 ^^^ rol32 (tbl (win.headD 0)) 48 ^^^ tbl c),
       rol32 h 1 ^^^ rol32 (tbl (win.headD 0)) 48 ^^^ tbl c) := by
  unfold buzUpdate
  simp only [Option.getD_some]
  rw [if_neg (by omega)]

theorem suf_roll (b : UInt8) (m : Nat) (win : Bytes) (hs : Suf b m win) (hm : m < 48) : Suf b (m + 1) (win.drop 1 ++ [b]) := by
  obtain ⟨hl, hb⟩ := hs
  refine ⟨by simp [hl], fun i h1 h2 => ?_⟩
  by_cases h47 : i = 47
  · subst h47
    rw [List.getElem?_append_right (by simp [hl])]
    simp [hl]
  · rw [List.getElem?_append_left (by simp [hl]; omega), List.getElem?_drop]
    exact hb (1 + i) (by omega) (by omega)

theorem suf_head (b : UInt8) (win : Bytes) (hs : Suf b 48 win) : win.headD 0 = b := by
  obtain ⟨hl, hb⟩ := hs
  have := hb 0 (by omega) (by omega)
  cases win with
  | nil => simp at hl
  | cons x xs => simp at this; simp [this]

/-! ### the re-examination chain -/

/-- from a full window whose last `m` bytes are the byte under examination, with the previous boundary request refused: at most
`48 - m + 1` further examinations -/
theorem chain (cfg : Cfg) (hs : Std cfg) (b : UInt8) : ∀ (fuel : Nat) (st : St) (win : Bytes) (h : UInt32) (m : Nat),
    st.buz = some (win, h) → Suf b m win → 1 ≤ m → m ≤ 48 → h.toNat % 2^15 = 0 → st.curLen < cfg.autoMin →
    48 - m + 2 ≤ fuel → (feedAuto cfg fuel st b).isSome = true
  | 0, _, _, _, _, _, _, _, _, _, _, hf => by omega
  | fuel + 1, st, win, h, m, hbz, hsuf, h1, h48, htr, hcur, hf => by
    unfold feedAuto
    rw [hs.hW, hbz, buzUpdate_full win h b hsuf.1]
    simp only
    generalize hr : rol32 h 1 ^^^ rol32 (tbl (win.headD 0)) 48 ^^^ tbl b = r
    by_cases hT : r.toNat % (cfg.mask + 1) = 0 ∨ st.curLen ≥ cfg.autoMax
    · rw [if_pos hT, if_pos hcur]
      rw [hs.mask] at hT
      have hno : ¬ st.curLen ≥ cfg.autoMax := by have := hs.hmm; omega
      have htr' : r.toNat % 2^15 = 0 := by
        rcases hT with hT | hT
        · exact hT
        · exact absurd hT hno
      by_cases hm : m = 48
      · -- the window holds only `b`: two requests in a row contradict the table property
        exfalso
        subst hm
        rw [← hr, suf_head b win hsuf, UInt32.xor_assoc] at htr'
        have := rol1_low h _ htr htr'
        have := kb_ok_byte b
        omega
      · exact chain cfg hs b fuel { st with buz := some (win.drop 1 ++ [b], r) }
          _ _ (m + 1) rfl (suf_roll b m win hsuf (by omega)) (by omega) (by omega) htr' hcur (by omega)
    · rw [if_neg hT]; rfl

/-- a byte examined in the state right after a chunk was ended is absorbed at once -/
theorem feed_fresh (cfg : Cfg) (hs : Std cfg) (b : UInt8) (fuel : Nat) (st : St) (hb : st.buz = none) (hc : st.curLen = 0) :
    (feedAuto cfg (fuel + 1) st b).isSome = true := by
  unfold feedAuto
  rw [hs.hW, hb]
  have hu : buzUpdate 48 none b = (some ([b], (0 : UInt32) ^^^ rol32 (tbl b) (48 - 1)), 1) := by
    unfold buzUpdate
    simp
  rw [hu]
  simp only
  rw [if_neg]
  · rfl
  · rw [hs.mask, hc]
    have := hs.hpos
    intro hx
    rcases hx with hx | hx
    · revert hx; decide
    · omega

/-- **one byte is examined at most `W + 3` times**: the automatic branch never exhausts its fuel -/
theorem feedAuto_terminates (cfg : Cfg) (hs : Std cfg) (b : UInt8) (st : St) (hbw : BW 48 st.buz) (fuel : Nat) (hf : 51 ≤ fuel) :
    (feedAuto cfg fuel st b).isSome = true := by
  obtain ⟨fuel, rfl⟩ : ∃ f, fuel = f + 1 := ⟨fuel - 1, by omega⟩
  unfold feedAuto
  rw [hs.hW]
  simp only
  split
  · rename_i hT
    split
    · -- refused: the request came from the hash, so the window is full by now
      rename_i hcur
      rw [hs.mask] at hT
      have hno : ¬ st.curLen ≥ cfg.autoMax := by have := hs.hmm; omega
      have hres : (buzUpdate 48 st.buz b).2.toNat % 2^15 = 0 := by
        rcases hT with hT | hT
        · exact hT
        · exact absurd hT hno
      -- which branch of buzhash_update was it?
      have key : ∃ win h, (buzUpdate 48 st.buz b).1 = some (win, h) ∧ Suf b 1 win ∧ h.toNat % 2^15 = 0 := by
        unfold buzUpdate at hres ⊢
        cases hbz : st.buz with
        | none =>
          exfalso
          rw [hbz] at hres
          simp at hres
        | some p =>
          obtain ⟨win, h⟩ := p
          rw [hbz] at hres hbw
          simp only [Option.getD_some] at hres ⊢
          have hle : win.length ≤ 48 := hbw
          by_cases hlt : win.length < 48
          · rw [if_pos hlt] at hres ⊢
            by_cases hlt2 : (win ++ [b]).length < 48
            · exfalso
              rw [if_pos hlt2] at hres
              simp at hres
            · rw [if_neg hlt2] at hres ⊢
              refine ⟨win ++ [b], _, rfl, ⟨by simp at hlt2 ⊢; omega, fun i h1 h2 => ?_⟩, hres⟩
              have hi : i = 47 := by omega
              have hwl : win.length = 47 := by simp at hlt2; omega
              subst hi
              rw [List.getElem?_append_right (by omega)]
              simp [hwl]
          · rw [if_neg hlt] at hres ⊢
            have hwl : win.length = 48 := by omega
            refine ⟨win.drop 1 ++ [b], _, rfl, ⟨by simp [hwl], fun i h1 h2 => ?_⟩, hres⟩
            have hi : i = 47 := by omega
            subst hi
            rw [List.getElem?_append_right (by simp [hwl])]
            simp [hwl]
      obtain ⟨win, h, hb1, hsuf, htr⟩ := key
      exact chain cfg hs b fuel { st with buz := (buzUpdate 48 st.buz b).1 } win h 1 hb1 hsuf (by omega) (by omega) htr hcur (by omega)
    · -- accepted: the chunk is ended, the byte starts the next one
      rename_i hcur
      have hge : ¬ (st.curLen < cfg.chunkMin) := by have := hs.hmin; omega
      have he : (endChunk cfg { st with buz := (buzUpdate 48 st.buz b).1 } false).buz = none ∧
          (endChunk cfg { st with buz := (buzUpdate 48 st.buz b).1 } false).curLen = 0 := by
        unfold endChunk
        simp only
        rw [if_neg (by simp; omega)]
        split
        · rename_i h0; exact ⟨rfl, h0⟩
        · exact ⟨rfl, rfl⟩
      obtain ⟨f2, rfl⟩ : ∃ f, fuel = f + 1 := ⟨fuel - 1, by omega⟩
      exact feed_fresh cfg hs b f2 _ he.1 he.2
  · rfl

/-! ### the window bound is an invariant, and whole runs terminate -/

theorem buzUpdate_bw (W : Nat) (hW : 0 < W) (bz : Buz) (c : UInt8) (h : BW W bz) : BW W (buzUpdate W bz c).1 := by
  have key : ∀ (win : Bytes) (hh : UInt32), win.length ≤ W → BW W (buzUpdate W (some (win, hh)) c).1 := by
    intro win hh hl
    unfold buzUpdate
    simp only [Option.getD_some]
    by_cases hlt : win.length < W
    · rw [if_pos hlt]
      by_cases h2 : (win ++ [c]).length < W
      · rw [if_pos h2]; show (win ++ [c]).length ≤ W; omega
      · rw [if_neg h2]; show (win ++ [c]).length ≤ W; simp; omega
    · rw [if_neg hlt]
      show (win.drop 1 ++ [c]).length ≤ W
      rw [List.length_append, List.length_drop, List.length_singleton]
      omega
  cases bz with
  | none =>
    have : buzUpdate W none c = buzUpdate W (some ([], 0)) c := by unfold buzUpdate; rfl
    rw [this]
    exact key [] 0 (by simp)
  | some p => exact key p.1 p.2 h

theorem endChunk_bw (cfg : Cfg) (st : St) (force : Bool) (h : BW cfg.W st.buz) : BW cfg.W (endChunk cfg st force).buz := by
  unfold endChunk
  split
  · exact h
  · split <;> trivial

theorem feedAuto_bw (cfg : Cfg) (hW : 0 < cfg.W) (b : UInt8) : ∀ (fuel : Nat) (st st' : St), BW cfg.W st.buz → feedAuto cfg fuel st b = some st' →
    BW cfg.W st'.buz
  | 0, _, _, _, h => by simp [feedAuto] at h
  | fuel + 1, st, st', hb, h => by
    unfold feedAuto at h
    simp only at h
    have hb' := buzUpdate_bw cfg.W hW st.buz b hb
    split at h
    · split at h
      · exact feedAuto_bw cfg hW b fuel _ st' hb' h
      · exact feedAuto_bw cfg hW b fuel _ st' (endChunk_bw cfg _ false hb') h
    · simp only [Option.some.injEq] at h
      rw [← h]; exact hb'

theorem writeAuto_total (cfg : Cfg) (hs : Std cfg) : ∀ (bs : Bytes) (st : St), BW cfg.W st.buz →
    ∃ st', writeAuto cfg st bs = some st' ∧ BW cfg.W st'.buz
  | [], st, hb => ⟨st, rfl, hb⟩
  | b :: rest, st, hb => by
    have ht := feedAuto_terminates cfg hs b st (by rw [← hs.hW]; exact hb) (refeedFuel cfg) (by unfold refeedFuel; rw [hs.hW]; omega)
    cases hf : feedAuto cfg (refeedFuel cfg) st b with
    | none => rw [hf] at ht; cases ht
    | some st1 =>
      obtain ⟨st', h1, h2⟩ := writeAuto_total cfg hs rest st1 (feedAuto_bw cfg (by rw [hs.hW]; omega) b _ st st1 hb hf)
      exact ⟨st', by unfold writeAuto; rw [hf]; exact h1, h2⟩

theorem writeManual_bw (cfg : Cfg) : ∀ (fuel : Nat) (st : St) (bs : Bytes), BW cfg.W st.buz → BW cfg.W (writeManual cfg fuel st bs).buz
  | 0, _, _, h => h
  | fuel + 1, st, bs, h => by
    unfold writeManual
    split
    · exact writeManual_bw cfg fuel _ _ (endChunk_bw cfg _ false h)
    · exact h

theorem applyOp_total (cfg : Cfg) (hs : Std cfg) (st : St) (op : Op) (hb : BW cfg.W st.buz) :
    ∃ st', applyOp cfg st op = some st' ∧ BW cfg.W st'.buz := by
  cases op with
  | write bs =>
    simp only [applyOp]
    by_cases he : bs.isEmpty = true
    · rw [if_pos he]; exact ⟨st, rfl, hb⟩
    · rw [if_neg he]
      by_cases hm : cfg.manual = true
      · rw [if_pos hm]; exact ⟨_, rfl, writeManual_bw cfg _ st bs hb⟩
      · rw [if_neg hm]; exact writeAuto_total cfg hs bs st hb
  | endChunk =>
    simp only [applyOp]
    exact ⟨_, rfl, endChunk_bw cfg st false hb⟩

/-- **every sequence of write / end-of-chunk calls completes** -/
theorem run_terminates (cfg : Cfg) (hs : Std cfg) : ∀ (ops : List Op) (st : St), BW cfg.W st.buz →
    ∃ st', run cfg st ops = some st'
  | [], st, _ => ⟨st, rfl⟩
  | op :: ops, st, hb => by
    obtain ⟨st1, h1, hb1⟩ := applyOp_total cfg hs st op hb
    obtain ⟨st', h2⟩ := run_terminates cfg hs ops st1 hb1
    exact ⟨st', by unfold run; rw [h1]; exact h2⟩

/-- the configuration after `comp_init` is a standard one whenever the configured limits are legal (what the option setters
enforce) and the rolling-hash parameters are the library's constants -/
theorem std_of_legal (cfg : Cfg) (hl : Legal cfg.norm) (hW : cfg.W = 48) (hb : cfg.bits = 15) : Std cfg.norm := by
  obtain ⟨a, b, c⟩ := C16.limits_consistent cfg.norm hl.2
  refine ⟨by simpa [Cfg.norm] using hW, by simpa [Cfg.norm] using hb, b, a, ?_⟩
  -- autoMax > 0: it is at least ... the clamp of a positive number into [chunkMin, chunkMax] with chunkMax > 0
  have hmax := hl.1
  unfold Cfg.autoMax
  simp only
  have hm : 0 < (cfg.norm.mask + 1) * 4 := by omega
  repeat' split
  all_goals omega

/-- **C01 / C16: the writer always completes.**  For every legal configuration and every sequence of calls, `zck_close` yields a
chunk list -/
theorem closeChunks_total (cfg : Cfg) (hl : Legal cfg.norm) (hW : cfg.W = 48) (hb : cfg.bits = 15) (ops : List Op) :
    ∃ cs, closeChunks cfg ops = some cs := by
  obtain ⟨st, h⟩ := run_terminates cfg.norm (std_of_legal cfg hl hW hb) ops {} trivial
  exact ⟨_, by unfold closeChunks; rw [h]; rfl⟩

/-- ... and the chunks are the bytes written: `W_structure` without its "if the calls complete" -/
theorem written_back_total (cfg : Cfg) (hl : Legal cfg.norm) (hW : cfg.W = 48) (hb : cfg.bits = 15) (ops : List Op) :
    ∃ cs, closeChunks cfg ops = some cs ∧ cs.flatten = written ops := by
  obtain ⟨cs, h⟩ := closeChunks_total cfg hl hW hb ops
  exact ⟨cs, h, C01.W_structure cfg hl ops cs h⟩

/-! non-vacuity (test): the default configuration is standard -/
example : Std (Cfg.norm { manual := false, chunkMin := 0, chunkMax := 0 }) :=
  std_of_legal _ ⟨by decide, by decide⟩ rfl rfl

end Zck.C16T
