/-
C04 — completeness of the update procedure for well-formed responses.
  `req_ready`         a round's request = the spans of groups of adjacent extents of chunks that are missing and have stored bytes
                      (from C10's `missing_spec`; `specRanges_groups`, `sliceIncl_group`: the server's slice for a range is the
                      concatenation of the stored bytes of its group);
  `partHdr_noEarly`, `closing_noHeader`   the text of the reference server's multipart body holds no stray CRLFCRLF;
  `Honest`            what the regex oracle must do on the reference server's responses (a HYPOTHESIS: glibc's regex is a parameter);
  `session_single/_multi`, `round_complete`   one transfer / one round with such a response: carried out, every body fragment
                      accepted under the transport's fragmentation, every requested chunk valid, no other mark changes
                      (from C05's `single_fresh_frags` / `multipart_complete_frags_null`);
  `loop_complete`     the fetch loop ends without error and with every chunk valid (induction on the number of marks still 0);
  `afterHeader_complete`, `update_complete`   the procedure ends without error with the target = B, or a collision is exhibited.
  `marks_of_scan`     after scan, copy from the old file and reset there is one mark per chunk, each 0 or 1 (`Marks`), for any
                      target and old file; `update_converges` is the headline with that discharged.
Hypotheses that remain: `Honest` (regex semantics only: the two facts about the response text are proved, `partHdr_noEarly`, `closing_noHeader`) and that the scan marked the chunks
without stored bytes valid (in a file the writer produces only the empty dictionary entry is such a chunk).
-/
import ZckModel.Props.C04Req
import ZckModel.Props.C05Feed
namespace Zck.C04
open Zck Zck.Format Zck.Dl Zck.Copy Zck.C05 Zck.Update Zck.Reader

/-! ### the transport's pieces are a partition into non-empty fragments -/

theorem pieces_go_spec (n : Nat) (hn : 0 < n) : ∀ (fuel : Nat) (b : Bytes) (acc : List Bytes), b.length < fuel →
    (∀ f ∈ acc, f ≠ []) →
    (pieces.go n fuel b acc).flatten = acc.reverse.flatten ++ b ∧ ∀ f ∈ pieces.go n fuel b acc, f ≠ []
  | 0, b, acc, h, _ => by omega
  | fuel + 1, b, acc, h, hacc => by
    unfold pieces.go
    by_cases hb : b.isEmpty = true
    · simp only [hb, ↓reduceIte]
      have : b = [] := List.isEmpty_iff.mp hb
      subst this
      exact ⟨by simp, fun f hf => hacc f (by simpa using hf)⟩
    · simp only [hb, Bool.false_eq_true, ↓reduceIte]
      have hbne : b ≠ [] := fun h => hb (by simp [h])
      have hbl : 0 < b.length := List.length_pos_iff.mpr hbne
      have htk : b.take n ≠ [] := by
        intro h
        have := congrArg List.length h
        simp only [List.length_take, List.length_nil] at this
        omega
      have ih := pieces_go_spec n hn fuel (b.drop n) (b.take n :: acc) (by simp only [List.length_drop]; omega)
        (fun f hf => by rcases List.mem_cons.mp hf with rfl | h'; exact htk; exact hacc f h')
      refine ⟨?_, ih.2⟩
      rw [ih.1]
      simp [List.append_assoc]

theorem pieces_spec (n : Nat) (b : Bytes) : (pieces n b).flatten = b ∧ ∀ f ∈ pieces n b, f ≠ [] := by
  unfold pieces
  by_cases hn : n = 0
  · simp only [hn, ↓reduceIte]
    by_cases hb : b.isEmpty = true
    · have : b = [] := List.isEmpty_iff.mp hb
      simp [this]
    · simp only [hb, Bool.false_eq_true, ↓reduceIte]
      have hbne : b ≠ [] := fun h => hb (by simp [h])
      simp [hbne]
  · simp only [hn, ↓reduceIte]
    have := pieces_go_spec n (by omega) (b.length + 1) b [] (by omega) (by simp)
    simpa using this

/-! ### the coalesced ranges of a request, as groups of adjacent extents -/

open Zck.C10 in
/-- consecutive extents touch -/
def Adj : List C10.Ext → Prop
  | [] => True
  | [_] => True
  | x :: y :: r => x.start + x.len = y.start ∧ Adj (y :: r)

def dflt : C10.Ext := ⟨0, 0, 0⟩

/-- first byte of the first extent, last byte of the last -/
def spanOf (g : List C10.Ext) : Nat × Nat :=
  ((g.headD dflt).start, (g.getLastD dflt).start + (g.getLastD dflt).len - 1)

def groupFrom : List C10.Ext → List C10.Ext → List (List C10.Ext)
  | cur, [] => [cur]
  | cur, x :: rest =>
    if (cur.getLastD dflt).start + (cur.getLastD dflt).len = x.start then groupFrom (cur ++ [x]) rest
    else cur :: groupFrom [x] rest

def groups : List C10.Ext → List (List C10.Ext)
  | [] => []
  | x :: rest => groupFrom [x] rest

theorem groupFrom_flatten : ∀ (rest cur : List C10.Ext), (groupFrom cur rest).flatten = cur ++ rest
  | [], cur => by simp [groupFrom]
  | x :: rest, cur => by
    unfold groupFrom
    split
    · rw [groupFrom_flatten rest (cur ++ [x])]; simp
    · simp only [List.flatten_cons]; rw [groupFrom_flatten rest [x]]; simp

theorem groups_flatten (exts : List C10.Ext) : (groups exts).flatten = exts := by
  cases exts with
  | nil => rfl
  | cons x rest => simp only [groups]; rw [groupFrom_flatten]; simp

theorem groupFrom_ne : ∀ (rest cur : List C10.Ext), cur ≠ [] → ∀ g ∈ groupFrom cur rest, g ≠ []
  | [], cur, h, g, hg => by simp only [groupFrom, List.mem_singleton] at hg; rw [hg]; exact h
  | x :: rest, cur, h, g, hg => by
    unfold groupFrom at hg
    split at hg
    · exact groupFrom_ne rest (cur ++ [x]) (by simp) g hg
    · rcases List.mem_cons.mp hg with rfl | hg'
      · exact h
      · exact groupFrom_ne rest [x] (by simp) g hg'

theorem adj_snoc : ∀ (cur : List C10.Ext) (x : C10.Ext), cur ≠ [] → Adj cur →
    (cur.getLastD dflt).start + (cur.getLastD dflt).len = x.start → Adj (cur ++ [x])
  | [], _, h, _, _ => absurd rfl h
  | [a], x, _, _, hl => by simpa [Adj] using hl
  | a :: b :: r, x, _, ha, hl => by
    have : Adj ((b :: r) ++ [x]) := adj_snoc (b :: r) x (by simp) ha.2 (by simpa using hl)
    exact ⟨ha.1, this⟩

theorem groupFrom_adj : ∀ (rest cur : List C10.Ext), cur ≠ [] → Adj cur → ∀ g ∈ groupFrom cur rest, Adj g
  | [], cur, _, ha, g, hg => by simp only [groupFrom, List.mem_singleton] at hg; rw [hg]; exact ha
  | x :: rest, cur, hne, ha, g, hg => by
    unfold groupFrom at hg
    split at hg
    · rename_i hl
      exact groupFrom_adj rest (cur ++ [x]) (by simp) (adj_snoc cur x hne ha hl) g hg
    · rcases List.mem_cons.mp hg with rfl | hg'
      · exact ha
      · exact groupFrom_adj rest [x] (by simp) trivial g hg'

theorem snoc_append_last : ∀ (rs : List (Nat × Nat)) (p : Nat × Nat) (s e : Nat),
    C10.snoc (rs ++ [p]) s e = rs ++ (if p.2 + 1 = s then [(p.1, e)] else [p, (s, e)])
  | [], p, s, e => by simp [C10.snoc]
  | [q], p, s, e => by simp [C10.snoc]
  | q :: q2 :: rs, p, s, e => by
    have ih := snoc_append_last (q2 :: rs) p s e
    simp only [List.cons_append] at ih ⊢
    rw [C10.snoc, ih]

theorem getLastD_snoc (l : List C10.Ext) (x d : C10.Ext) : (l ++ [x]).getLastD d = x := by
  induction l generalizing d with
  | nil => rfl
  | cons a r ih => simp only [List.cons_append, List.getLastD_cons]; exact ih a

theorem getLastD_mem : ∀ (r : List C10.Ext) (a : C10.Ext), r.getLastD a ∈ a :: r
  | [], a => by simp
  | b :: r, a => by
    rw [List.getLastD_cons]
    exact List.mem_cons_of_mem _ (getLastD_mem r b)

theorem spanOf_snoc (cur : List C10.Ext) (x : C10.Ext) (h : cur ≠ []) :
    spanOf (cur ++ [x]) = ((spanOf cur).1, x.start + x.len - 1) := by
  unfold spanOf
  rw [getLastD_snoc]
  cases cur with
  | nil => exact absurd rfl h
  | cons a r => rfl

theorem groupFrom_spec : ∀ (rest cur : List C10.Ext) (rs : List (Nat × Nat)), cur ≠ [] → (∀ x ∈ cur, 0 < x.len) →
    (∀ x ∈ rest, 0 < x.len) →
    C10.specRangesFrom (rs ++ [spanOf cur]) rest = rs ++ (groupFrom cur rest).map spanOf
  | [], cur, rs, _, _, _ => by simp [C10.specRangesFrom, groupFrom]
  | x :: rest, cur, rs, hne, hpos, hrest => by
    simp only [C10.specRangesFrom]
    rw [snoc_append_last]
    have hlast : 0 < (cur.getLastD dflt).len := by
      have : cur.getLastD dflt ∈ cur := by
        cases cur with
        | nil => exact absurd rfl hne
        | cons a r => rw [List.getLastD_cons]; exact getLastD_mem r a
      exact hpos _ this
    unfold groupFrom
    by_cases hm : (cur.getLastD dflt).start + (cur.getLastD dflt).len = x.start
    · have hc : (spanOf cur).2 + 1 = x.start := by simp only [spanOf]; omega
      rw [if_pos hc, if_pos hm]
      have := groupFrom_spec rest (cur ++ [x]) rs (by simp) (by
        intro y hy
        rcases List.mem_append.mp hy with h | h
        · exact hpos y h
        · simp only [List.mem_singleton] at h; rw [h]; exact hrest x List.mem_cons_self)
        (fun y hy => hrest y (List.mem_cons_of_mem _ hy))
      rw [spanOf_snoc cur x hne] at this
      exact this
    · have hc : ¬ ((spanOf cur).2 + 1 = x.start) := by simp only [spanOf]; omega
      rw [if_neg hc, if_neg hm]
      have := groupFrom_spec rest [x] (rs ++ [spanOf cur]) (by simp)
        (by intro y hy; simp only [List.mem_singleton] at hy; rw [hy]; exact hrest x List.mem_cons_self)
        (fun y hy => hrest y (List.mem_cons_of_mem _ hy))
      have e1 : rs ++ [spanOf cur, (x.start, x.start + x.len - 1)] = (rs ++ [spanOf cur]) ++ [spanOf [x]] := by simp [spanOf]
      rw [e1, this]
      simp

/-- **the ranges of a request are the spans of its groups of adjacent extents** -/
theorem specRanges_groups (exts : List C10.Ext) (hpos : ∀ x ∈ exts, 0 < x.len) :
    C10.specRanges exts = (groups exts).map spanOf ∧ (groups exts).flatten = exts ∧
    (∀ g ∈ groups exts, g ≠ [] ∧ Adj g) := by
  refine ⟨?_, groups_flatten exts, ?_⟩
  · cases exts with
    | nil => rfl
    | cons x rest =>
      unfold C10.specRanges
      simp only [C10.specRangesFrom, groups]
      have := groupFrom_spec rest [x] [] (by simp)
        (by intro y hy; simp only [List.mem_singleton] at hy; rw [hy]; exact hpos x List.mem_cons_self)
        (fun y hy => hpos y (List.mem_cons_of_mem _ hy))
      simpa [C10.snoc, spanOf] using this
  · intro g hg
    cases exts with
    | nil => simp [groups] at hg
    | cons x rest =>
      simp only [groups] at hg
      exact ⟨groupFrom_ne rest [x] (by simp) g hg, groupFrom_adj rest [x] (by simp) trivial g hg⟩

def sumLens : List C10.Ext → Nat
  | [] => 0
  | x :: r => x.len + sumLens r

/-- the bytes of a group of adjacent extents are one slice of the file -/
theorem slice_group (B : Bytes) : ∀ (g : List C10.Ext), g ≠ [] → Adj g → (∀ x ∈ g, 0 < x.len) →
    (spanOf g).2 + 1 = (spanOf g).1 + sumLens g ∧ (spanOf g).1 = (g.headD dflt).start ∧
    (B.drop (g.headD dflt).start).take (sumLens g) = (g.map fun x => (B.drop x.start).take x.len).flatten
  | [], h, _, _ => absurd rfl h
  | [x], _, _, hp => by
    have := hp x (by simp)
    simp only [spanOf, List.headD_cons, List.getLastD_cons, List.getLastD_nil, sumLens, List.map_cons, List.map_nil,
      List.flatten_cons, List.flatten_nil, List.append_nil, Nat.add_zero, and_true]
    omega
  | x :: y :: r, _, ha, hp => by
    obtain ⟨i1, i2, i3⟩ := slice_group B (y :: r) (by simp) ha.2 (fun z hz => hp z (List.mem_cons_of_mem _ hz))
    have hx := hp x (by simp)
    have hadj := ha.1
    simp only [List.headD_cons] at i2 i3
    refine ⟨?_, rfl, ?_⟩
    · simp only [spanOf, List.headD_cons, List.getLastD_cons, sumLens] at i1 i2 ⊢
      omega
    · simp only [List.headD_cons, sumLens, List.map_cons, List.flatten_cons]
      rw [List.take_add, List.drop_drop, hadj]
      congr 1

theorem sliceIncl_group (B : Bytes) (g : List C10.Ext) (hne : g ≠ []) (ha : Adj g) (hp : ∀ x ∈ g, 0 < x.len) :
    sliceIncl B (spanOf g) = (g.map fun x => (B.drop x.start).take x.len).flatten := by
  obtain ⟨i1, i2, i3⟩ := slice_group B g hne ha hp
  unfold sliceIncl
  rw [← i3, i2]
  congr 1
  have hs : 0 < sumLens g := by
    cases g with
    | nil => exact absurd rfl hne
    | cons x r => simp only [sumLens]; have := hp x (by simp); omega
  omega

/-! ### the single-range path from any fresh context -/

theorem complete_fresh (e : Env) (stored : Nat → Bytes) (st : St) (F : Nat) (hf : Fresh st)
    (hne : e.ridx ≠ []) (hrun : RunIdx 0 e.ridx)
    (hent : ∀ r ∈ e.ridx, EntryOk e stored r ∧ r.tgt < st.valid.length ∧ st.valid.getD r.tgt 0 ≠ 1)
    (hnd : (e.ridx.map (·.tgt)).Nodup) (hF : 2 * (payloadOf stored e.ridx).length + 2 ≤ F) :
    let out := dlWriteRange e F st (payloadOf stored e.ridx)
    out.1 = (payloadOf stored e.ridx).length ∧ (∀ r ∈ e.ridx, out.2.valid.getD r.tgt 0 = 1) ∧
    (∀ k, (∀ r ∈ e.ridx, r.tgt ≠ k) → out.2.valid.getD k 0 = st.valid.getD k 0) := by
  cases hr : e.ridx with
  | nil => exact absurd hr hne
  | cons rc rest =>
    obtain ⟨⟨tc, htc, hsz, hlen, hhash⟩, hklt, hnv⟩ := hent rc (by rw [hr]; exact List.mem_cons_self)
    rw [hr] at hrun
    have hpos : 0 < rc.compLen := hrun.2.1
    have hs : rc.start = 0 := hrun.1
    have hpne : payloadOf stored (rc :: rest) ≠ [] := by
      intro h; have := congrArg List.length h; simp [payloadOf, hlen] at this; omega
    obtain ⟨F', rfl⟩ : ∃ F', F = F' + 1 := ⟨F - 1, by omega⟩
    intro out
    have hout : out = dlWriteRange e (F' + 1) st (payloadOf stored (rc :: rest)) := by simp only [out, hr]
    rw [hout, dwr_fresh e st rc rest tc _ F' hf hr hs hnv htc hsz hpos hpne]
    have hvo : (opened e st rc tc).valid = st.valid := rfl
    have h := complete_piece e stored rest [] [] rc (opened e st rc tc) F' (by rw [hr]; simp) (by rw [hs]; simpa using hrun)
      (by intro r hr'; rw [hvo]; have := hent r (by rw [hr]; simpa using hr'); exact ⟨this.1, this.2.1⟩)
      (by intro r hr'; rw [hvo]; exact (hent r (by rw [hr]; exact List.mem_cons_of_mem _ (by simpa using hr'))).2.2)
      (by rw [hr] at hnd; simpa using hnd) (by intro r h'; simp at h') (openAt_opened e st rc tc hf hs) (by rw [hr] at hF; omega)
    obtain ⟨i1, i2, _, i4, _, _⟩ := h
    exact ⟨i1, i2, fun k hk => by rw [i4 k hk, hvo]⟩

/-- the single-range path at the write callback, from any fresh context without a boundary, under every fragmentation -/
theorem single_fresh_frags (e : Env) (stored : Nat → Bytes) (st : St) (fs : List Bytes) (stop clear : Bool)
    (hf : Fresh st) (hb : st.boundary = none) (hne : e.ridx ≠ []) (hrun : RunIdx 0 e.ridx)
    (hent : ∀ r ∈ e.ridx, EntryOk e stored r ∧ r.tgt < st.valid.length ∧ st.valid.getD r.tgt 0 ≠ 1)
    (hnd : (e.ridx.map (·.tgt)).Nodup) (hfs : ∀ f ∈ fs, f ≠ []) (hcat : fs.flatten = payloadOf stored e.ridx) :
    let out := feed e stop clear st fs []
    out.1 = fs.map List.length ∧ (∀ r ∈ e.ridx, out.2.valid.getD r.tgt 0 = 1) ∧
    (∀ k, (∀ r ∈ e.ridx, r.tgt ≠ k) → out.2.valid.getD k 0 = st.valid.getD k 0) := by
  intro out
  have hc := complete_fresh e stored st (2 * (payloadOf stored e.ridx).length + 2) hf hne hrun hent hnd (Nat.le_refl _)
  have hfne : fs ≠ [] := by
    intro h
    rw [h] at hcat
    have : (payloadOf stored e.ridx).length = 0 := by rw [← hcat]; rfl
    rw [← hc.1] at this
    cases hr : e.ridx with
    | nil => exact hne hr
    | cons rc rest =>
      obtain ⟨⟨tc, _, _, hlen, _⟩, _⟩ := hent rc (by rw [hr]; exact List.mem_cons_self)
      rw [hr] at hrun
      have h1 := hc.1
      rw [hr] at h1 this
      simp only [payloadOf, List.length_append, hlen] at h1 this
      have := hrun.2.1
      omega
  have hi : HashInv st := fun h => by rw [hf.wic] at h; omega
  have hfi := single_feed_indep e stop clear st fs hb hf.err hi hfs hfne (by rw [hcat]; exact hc.1)
  have hout : out = feed e stop clear st fs [] := rfl
  rw [hout, hfi, hcat]
  exact ⟨rfl, hc.2.1, hc.2.2⟩

/-! ### the header callback on the lines of a response -/

/-- the context once the constant header pattern is compiled -/
def hdrReady (st : St) : St := { st with hdrRx := .ok hdrPattern }

theorem getBoundary_none (e : Env) (st : St) (b : Bytes) (he : st.err = false) (hc : e.rx.comp hdrPattern = true)
    (hrx : st.hdrRx = .null ∨ st.hdrRx = .ok hdrPattern) (hn : e.rx.hdr (cstr b) = none) :
    getBoundary e st b = hdrReady st := by
  obtain ⟨file, pos, valid, err, hash, cur, curNull, dlChunkData, writeInChunk, tgtCheck, mp, boundary, hdrRx, dlRx, endRx, dlBytes, ub⟩ := st
  simp only at he hrx
  subst he
  rcases hrx with h | h <;> subst h <;> simp [getBoundary, hdrEnsureRx, hdrReady, hc, hn]

theorem getBoundary_some (e : Env) (st : St) (b : Bytes) (so eo : Nat) (he : st.err = false) (hc : e.rx.comp hdrPattern = true)
    (hrx : st.hdrRx = .null ∨ st.hdrRx = .ok hdrPattern) (hm : e.rx.hdr (cstr b) = some (so, eo))
    (hso : so ≤ eo ∧ eo ≤ (cstr b).length) :
    getBoundary e st b = { hdrReady st with mp := {}, boundary := some (boundaryOf (cstr b) so eo) } := by
  obtain ⟨file, pos, valid, err, hash, cur, curNull, dlChunkData, writeInChunk, tgtCheck, mp, boundary, hdrRx, dlRx, endRx, dlBytes, ub⟩ := st
  simp only at he hrx
  subst he
  rcases hrx with h | h <;> subst h <;> simp [getBoundary, hdrEnsureRx, hdrReady, hc, hm, hso]

/-- the four header lines of a single-range response: nothing is learnt -/
theorem feedHdrs_single (e : Env) (st : St) (l0 l1 l2 l3 : Bytes) (he : st.err = false) (hc : e.rx.comp hdrPattern = true)
    (hrx : st.hdrRx = .null) (hn : ∀ l ∈ [l0, l1, l2, l3], e.rx.hdr (cstr l) = none) :
    feedHdrs e st [l0, l1, l2, l3] [] = ([l0.length, l1.length, l2.length, l3.length], hdrReady st) := by
  have r1 : (hdrReady st).err = false := he
  have r2 : (hdrReady st).hdrRx = .null ∨ (hdrReady st).hdrRx = .ok hdrPattern := Or.inr rfl
  have r3 : hdrReady (hdrReady st) = hdrReady st := rfl
  simp only [feedHdrs, headerCb]
  rw [getBoundary_none e st l0 he hc (Or.inl hrx) (hn l0 (by simp)),
      getBoundary_none e _ l1 r1 hc r2 (hn l1 (by simp)), r3,
      getBoundary_none e _ l2 r1 hc r2 (hn l2 (by simp)), r3,
      getBoundary_none e _ l3 r1 hc r2 (hn l3 (by simp)), r3]
  rfl

/-- the four header lines of a multipart response: the boundary is learnt from the second -/
theorem feedHdrs_multi (e : Env) (st : St) (l0 l1 l2 l3 : Bytes) (so eo : Nat) (he : st.err = false)
    (hc : e.rx.comp hdrPattern = true) (hrx : st.hdrRx = .null)
    (hn : ∀ l ∈ [l0, l2, l3], e.rx.hdr (cstr l) = none) (hm : e.rx.hdr (cstr l1) = some (so, eo))
    (hso : so ≤ eo ∧ eo ≤ (cstr l1).length) :
    feedHdrs e st [l0, l1, l2, l3] [] = ([l0.length, l1.length, l2.length, l3.length],
      { hdrReady st with mp := {}, boundary := some (boundaryOf (cstr l1) so eo) }) := by
  have r1 : (hdrReady st).err = false := he
  have r2 : (hdrReady st).hdrRx = .null ∨ (hdrReady st).hdrRx = .ok hdrPattern := Or.inr rfl
  have r3 : hdrReady (hdrReady st) = hdrReady st := rfl
  simp only [feedHdrs, headerCb]
  rw [getBoundary_none e st l0 he hc (Or.inl hrx) (hn l0 (by simp)),
      getBoundary_some e _ l1 so eo r1 hc r2 hm hso, r3]
  generalize hs2 : ({ hdrReady st with mp := {}, boundary := some (boundaryOf (cstr l1) so eo) } : St) = s2
  have q1 : s2.err = false := by rw [← hs2]; exact he
  have q2 : s2.hdrRx = .null ∨ s2.hdrRx = .ok hdrPattern := by rw [← hs2]; exact Or.inr rfl
  have q3 : hdrReady s2 = s2 := by rw [← hs2]; rfl
  rw [getBoundary_none e s2 l2 q1 hc q2 (hn l2 (by simp)), q3,
      getBoundary_none e s2 l3 q1 hc q2 (hn l3 (by simp)), q3]
  rfl

/-! ### from the request to the range index the callbacks work with -/

def toIdx (g : List C10.Ext) : List (Nat × Nat) := g.map fun x => (x.number, x.len)

def mkGroups : List (List C10.Ext) → Nat → List (List RChunk)
  | [], _ => []
  | g :: gs, off => mkRidx (toIdx g) off :: mkGroups gs (off + sumLens g)

theorem mkRidx_append : ∀ (a b : List C10.Ext) (off : Nat),
    mkRidx (toIdx (a ++ b)) off = mkRidx (toIdx a) off ++ mkRidx (toIdx b) (off + sumLens a)
  | [], b, off => by simp [toIdx, mkRidx, sumLens]
  | x :: a, b, off => by
    have ih := mkRidx_append a b (off + x.len)
    simp only [toIdx, List.map_cons, List.cons_append, mkRidx, sumLens, List.map_append] at ih ⊢
    rw [ih]
    simp [Nat.add_assoc]

theorem mkGroups_flatten : ∀ (gs : List (List C10.Ext)) (off : Nat), (mkGroups gs off).flatten = mkRidx (toIdx gs.flatten) off
  | [], _ => by simp [mkGroups, toIdx, mkRidx]
  | g :: gs, off => by
    simp only [mkGroups, List.flatten_cons]
    rw [mkGroups_flatten gs, mkRidx_append]

theorem payloadOf_mkRidx (stored : Nat → Bytes) : ∀ (g : List C10.Ext) (off : Nat),
    payloadOf stored (mkRidx (toIdx g) off) = (g.map fun x => stored x.number).flatten
  | [], _ => rfl
  | x :: g, off => by
    simp only [toIdx, List.map_cons, mkRidx, payloadOf, List.flatten_cons]
    have := payloadOf_mkRidx stored g (off + x.len)
    simp only [toIdx] at this
    rw [this]

theorem mem_mkRidx : ∀ (g : List C10.Ext) (off : Nat) (r : RChunk), r ∈ mkRidx (toIdx g) off →
    ∃ x ∈ g, r.tgt = x.number ∧ r.compLen = x.len
  | [], _, r, h => by simp [toIdx, mkRidx] at h
  | x :: g, off, r, h => by
    simp only [toIdx, List.map_cons, mkRidx, List.mem_cons] at h
    rcases h with rfl | h
    · exact ⟨x, by simp, rfl, rfl⟩
    · obtain ⟨y, hy, h1, h2⟩ := mem_mkRidx g (off + x.len) r (by simpa [toIdx] using h)
      exact ⟨y, List.mem_cons_of_mem _ hy, h1, h2⟩

theorem mkRidx_tgts : ∀ (g : List C10.Ext) (off : Nat), (mkRidx (toIdx g) off).map (·.tgt) = g.map (·.number)
  | [], _ => rfl
  | x :: g, off => by
    simp only [toIdx, List.map_cons, mkRidx]
    have := mkRidx_tgts g (off + x.len)
    simp only [toIdx] at this
    rw [this]

theorem mkGroups_ne : ∀ (gs : List (List C10.Ext)) (off : Nat), (∀ g ∈ gs, g ≠ []) → ∀ g ∈ mkGroups gs off, g ≠ []
  | [], _, _, g, hg => by simp [mkGroups] at hg
  | g0 :: gs, off, h, g, hg => by
    simp only [mkGroups, List.mem_cons] at hg
    rcases hg with rfl | hg
    · have := h g0 (by simp)
      cases g0 with
      | nil => exact absurd rfl this
      | cons x r => simp [toIdx, mkRidx]
    · exact mkGroups_ne gs _ (fun g' hg' => h g' (List.mem_cons_of_mem _ hg')) g hg

theorem mkGroups_payload (stored : Nat → Bytes) : ∀ (gs : List (List C10.Ext)) (off : Nat),
    (mkGroups gs off).map (payloadOf stored) = gs.map fun g => (g.map fun x => stored x.number).flatten
  | [], _ => rfl
  | g :: gs, off => by
    simp only [mkGroups, List.map_cons]
    rw [payloadOf_mkRidx, mkGroups_payload stored gs]

/-- the stored bytes of chunk `k` in the server's file -/
def storedOf (th : Hdr) (B : Bytes) (k : Nat) : Bytes :=
  match th.chunks[k]? with
  | some c => (B.drop (th.lead + th.headerLen + c.start)).take c.compLen
  | none => []

/-- an extent of the request is a chunk of the index that is marked missing and has stored bytes -/
def ExtOk (th : Hdr) (valid : List Int) (x : C10.Ext) : Prop :=
  ∃ c, th.chunks[x.number]? = some c ∧ valid.getD x.number 0 = 0 ∧ c.compLen = x.len ∧ x.len ≠ 0 ∧
    x.start = th.lead + th.headerLen + c.start

theorem mem_rchunks2 (valid : List Int) : ∀ (cs : List Chunk) (n s j : Nat), C13.RunFrom n s cs → ∀ rc,
    rc ∈ ((cs.zipIdx j).map fun (c, k) => (⟨c.number, c.start, c.compLen, valid.getD k 0⟩ : Range.Chunk)) →
    ∃ i c, cs[i]? = some c ∧ rc.number = n + i ∧ rc.valid = valid.getD (j + i) 0 ∧ rc.compLen = c.compLen ∧ rc.start = c.start
  | [], _, _, _, _, rc, h => by simp at h
  | c :: rest, n, s, j, hr, rc, h => by
    simp only [List.zipIdx_cons, List.map_cons, List.mem_cons] at h
    rcases h with rfl | h
    · exact ⟨0, c, rfl, by simp [hr.1], by simp, rfl, rfl⟩
    · obtain ⟨i, c', h1, h2, h3, h4, h5⟩ := mem_rchunks2 valid rest (n + 1) (s + c.compLen) (j + 1) hr.2.2 rc h
      exact ⟨i + 1, c', by simpa using h1, by omega, by rw [h3]; congr 1; omega, h4, h5⟩

theorem missingExt_ok (th : Hdr) (valid : List Int) (hrun : C13.RunFrom 0 0 th.chunks) :
    ∀ x ∈ C10.missingExt (th.lead + th.headerLen) (rchunksOf th valid), ExtOk th valid x := by
  intro x hx
  simp only [C10.missingExt, List.mem_map, List.mem_filter, decide_eq_true_eq] at hx
  obtain ⟨rc, ⟨hrc, hv, hz⟩, rfl⟩ := hx
  obtain ⟨i, c, h1, h2, h3, h4, h5⟩ := mem_rchunks2 valid th.chunks 0 0 0 hrun rc hrc
  simp only [Nat.zero_add] at h2 h3
  exact ⟨c, by simp only [h2]; exact h1, by simp only [h2]; rw [← h3]; exact hv, h4.symm, hz, by simp only; rw [h5]; omega⟩

theorem runFrom_numbers : ∀ (cs : List Chunk) (n s : Nat), C13.RunFrom n s cs →
    (∀ c ∈ cs, n ≤ c.number) ∧ (cs.map (·.number)).Nodup
  | [], _, _, _ => ⟨fun _ h => by simp at h, by simp⟩
  | c :: rest, n, s, h => by
    obtain ⟨i1, i2⟩ := runFrom_numbers rest (n + 1) (s + c.compLen) h.2.2
    refine ⟨?_, ?_⟩
    · intro x hx
      rcases List.mem_cons.mp hx with rfl | hx'
      · exact Nat.le_of_eq h.1.symm
      · have := i1 x hx'; omega
    · simp only [List.map_cons, List.nodup_cons]
      refine ⟨?_, i2⟩
      intro hm
      obtain ⟨y, hy, hyn⟩ := List.mem_map.mp hm
      have := i1 y hy
      have := h.1
      omega

theorem ascFrom_take : ∀ (l : List C10.Ext) (lo k : Nat), C10.AscFrom lo l → C10.AscFrom lo (l.take k)
  | [], _, _, _ => by simp [C10.AscFrom]
  | x :: l, lo, 0, _ => by simp [C10.AscFrom]
  | x :: l, lo, k + 1, h => ⟨h.1, h.2.1, ascFrom_take l _ k h.2.2⟩

theorem ascFrom_pos : ∀ (l : List C10.Ext) (lo : Nat), C10.AscFrom lo l → ∀ x ∈ l, 0 < x.len
  | [], _, _, x, hx => by simp at hx
  | y :: l, lo, h, x, hx => by
    rcases List.mem_cons.mp hx with rfl | hx'
    · exact h.2.1
    · exact ascFrom_pos l _ h.2.2 x hx'

/-- **what a round's request looks like**: groups of adjacent extents of chunks that are missing and have stored bytes -/
theorem req_ready (th : Hdr) (limit : Int) (valid : List Int) (hrun : C13.RunFrom 0 0 th.chunks)
    (hbound : th.lead + th.headerLen + C13.sumLen th.chunks < 2^64)
    (hmiss : ∃ k c, th.chunks[k]? = some c ∧ valid.getD k 0 = 0 ∧ c.compLen ≠ 0) :
    ∃ gs : List (List C10.Ext), gs ≠ [] ∧ (∀ g ∈ gs, g ≠ [] ∧ Adj g) ∧ (∀ x ∈ gs.flatten, 0 < x.len ∧ ExtOk th valid x) ∧
      (reqOf th limit valid).items = gs.map spanOf ∧ (reqOf th limit valid).index = toIdx gs.flatten ∧
      (gs.flatten.map (·.number)).Nodup := by
  rw [reqOf_eq]
  have hrs : C10.RunSum 0 (rchunksOf th valid) := runSum_rchunks valid th.chunks 0 0 0 hrun
  have htot : C10.total (rchunksOf th valid) = C13.sumLen th.chunks := total_rchunks valid th.chunks 0
  obtain ⟨k, _, _, hk3, _, hm⟩ := C10.missing_spec (th.lead + th.headerLen) (rchunksOf th valid) limit hrs (by rw [htot]; exact hbound)
  -- something is missing
  have hne : C10.missingExt (th.lead + th.headerLen) (rchunksOf th valid) ≠ [] := by
    obtain ⟨j, c, hc, hv, hz⟩ := hmiss
    have hmem : (⟨c.number, c.start, c.compLen, valid.getD j 0⟩ : Range.Chunk) ∈ rchunksOf th valid := by
      unfold rchunksOf
      exact List.mem_map.mpr ⟨(c, j), List.mem_zipIdx_iff_getElem?.mpr (by simpa using hc), rfl⟩
    intro hnil
    have : (⟨c.number, c.start + (th.lead + th.headerLen), c.compLen⟩ : C10.Ext) ∈ C10.missingExt (th.lead + th.headerLen) (rchunksOf th valid) := by
      unfold C10.missingExt
      exact List.mem_map.mpr ⟨_, List.mem_filter.mpr ⟨hmem, by simp only [decide_eq_true_eq]; exact ⟨hv, hz⟩⟩, rfl⟩
    rw [hnil] at this
    simp at this
  have hkpos := hk3 hne
  generalize hexts : (C10.missingExt (th.lead + th.headerLen) (rchunksOf th valid)).take k = exts at hm
  have hasc : C10.AscFrom (0 + (th.lead + th.headerLen)) exts := by
    rw [← hexts]; exact ascFrom_take _ _ k (C10.missingExt_asc _ 0 _ hrs)
  have hpos := ascFrom_pos exts _ hasc
  have hok : ∀ x ∈ exts, ExtOk th valid x := by
    intro x hx
    rw [← hexts] at hx
    exact missingExt_ok th valid hrun x (List.mem_of_mem_take hx)
  have hextne : exts ≠ [] := by
    rw [← hexts]
    cases hme : C10.missingExt (th.lead + th.headerLen) (rchunksOf th valid) with
    | nil => exact absurd hme hne
    | cons a r =>
      cases k with
      | zero => omega
      | succ k' => simp
  have hnd : (exts.map (·.number)).Nodup := by
    rw [← hexts]
    have h1 : ((C10.missingExt (th.lead + th.headerLen) (rchunksOf th valid)).map (·.number)).Nodup := by
      have hsub : ((C10.missingExt (th.lead + th.headerLen) (rchunksOf th valid)).map (·.number)).Sublist (th.chunks.map (·.number)) := by
        have e1 : (C10.missingExt (th.lead + th.headerLen) (rchunksOf th valid)).map (·.number) =
            ((rchunksOf th valid).filter (fun c => decide (c.valid = 0 ∧ c.compLen ≠ 0))).map (·.number) := by
          simp [C10.missingExt, List.map_map, Function.comp_def]
        have e2 : (rchunksOf th valid).map (·.number) = th.chunks.map (·.number) := by
          unfold rchunksOf
          rw [List.map_map]
          have : ((fun (c : Range.Chunk) => c.number) ∘ fun (p : Chunk × Nat) => (⟨p.1.number, p.1.start, p.1.compLen, valid.getD p.2 0⟩ : Range.Chunk)) =
              (fun c => c.number) ∘ Prod.fst := rfl
          rw [this, ← List.map_map, List.zipIdx_map_fst]
        rw [e1, ← e2]
        exact List.Sublist.map _ List.filter_sublist
      exact List.Nodup.sublist hsub (runFrom_numbers _ _ _ hrun).2
    exact List.Nodup.sublist (List.Sublist.map _ (List.take_sublist _ _)) h1
  obtain ⟨g1, g2, g3⟩ := specRanges_groups exts hpos
  refine ⟨groups exts, ?_, g3, ?_, ?_, ?_, ?_⟩
  · intro h; rw [h] at g2; simp at g2; exact hextne g2
  · rw [g2]; exact fun x hx => ⟨hpos x hx, hok x hx⟩
  · rw [hm]; exact g1
  · rw [hm, g2]; rfl
  · rw [g2]; exact hnd


/-! ### small facts about the request text and the server's clipping -/

theorem specChars_ne (items : List (Nat × Nat)) (h : items ≠ []) : C10.specChars items ≠ [] := by
  match items, h with
  | [p], _ => simp [C10.specChars]
  | p :: q :: r, _ => simp [C10.specChars]

theorem rtext_nonempty (items : List (Nat × Nat)) (h : items ≠ []) :
    ((if items.isEmpty then "" else (Range.render items).getD "").isEmpty) = false := by
  have hi : items.isEmpty = false := by cases items with | nil => exact absurd rfl h | cons a r => rfl
  rw [hi]
  simp only [Bool.false_eq_true, ↓reduceIte]
  rw [C10.render_exact items h]
  simp only [Option.getD_some]
  have := specChars_ne items h
  cases hc : C10.specChars items with
  | nil => exact absurd hc this
  | cons a r =>
    simp [String.isEmpty]
    intro h0
    have := Char.utf8Size_pos a
    omega

theorem clip_ok (total : Nat) : ∀ (items : List (Nat × Nat)), (∀ p ∈ items, p.1 ≤ p.2 ∧ p.2 < total) →
    items.mapM (fun (p : Nat × Nat) => if p.1 > p.2 ∨ p.1 ≥ total then none else some (p.1, if p.2 ≥ total then total - 1 else p.2)) = some items
  | [], _ => rfl
  | p :: rest, h => by
    have hp := h p List.mem_cons_self
    simp only [List.mapM_cons]
    rw [if_neg (by omega), if_neg (by omega)]
    rw [clip_ok total rest (fun q hq => h q (List.mem_cons_of_mem _ hq))]
    rfl

/-! ### the text of the reference server's multipart body holds no stray CRLFCRLF -/

theorem dec_no13 (n : Nat) : ∀ b ∈ dec n, b ≠ 13 := by
  intro b hb
  unfold dec at hb
  obtain ⟨c, hc, rfl⟩ := List.mem_map.mp hb
  have hd := Nat.isDigit_of_mem_toDigits (by decide) (by decide) hc
  simp only [Char.isDigit, Bool.and_eq_true, decide_eq_true_eq] at hd
  have h48 : 48 ≤ c.toNat := by
    have := hd.1
    simp only [ge_iff_le, UInt32.le_iff_toNat_le] at this
    exact this
  have h57 : c.toNat ≤ 57 := by
    have := hd.2
    simp only [UInt32.le_iff_toNat_le] at this
    exact this
  intro h
  have h1 : c.toNat.toUInt8.toNat = 13 := by rw [h]; rfl
  simp only [Nat.toUInt8, UInt8.toNat_ofNat'] at h1
  omega

/-- in `CR LF X T` with no CR in the non-empty `X`, two CRs two apart can only lie in `T` -/
theorem cr_shift (X T : Bytes) (hX : ∀ b ∈ X, b ≠ 13) (hne : X ≠ []) (i : Nat)
    (h1 : (13 :: 10 :: (X ++ T))[i]? = some 13) (h2 : (13 :: 10 :: (X ++ T))[i + 2]? = some 13) :
    2 + X.length ≤ i ∧ T[i - (2 + X.length)]? = some 13 ∧ T[i - (2 + X.length) + 2]? = some 13 := by
  match i with
  | 0 =>
    exfalso
    simp only [List.getElem?_cons_succ] at h2
    obtain ⟨x, xs, rfl⟩ := List.exists_cons_of_ne_nil hne
    simp only [List.cons_append, List.getElem?_cons_zero, Option.some.injEq] at h2
    exact hX x (by simp) h2
  | 1 => simp at h1
  | k + 2 =>
    simp only [List.getElem?_cons_succ] at h1 h2
    by_cases hk : k < X.length
    · exfalso
      rw [List.getElem?_append_left hk] at h1
      exact hX 13 (List.mem_of_getElem? h1) rfl
    · have hk' : X.length ≤ k := by omega
      rw [List.getElem?_append_right hk'] at h1
      rw [List.getElem?_append_right (by omega)] at h2
      refine ⟨by omega, ?_, ?_⟩
      · have : k + 2 - (2 + X.length) = k - X.length := by omega
        rw [this]; exact h1
      · have : k + 2 - (2 + X.length) + 2 = k + 2 - X.length := by omega
        rw [this]; exact h2

/-- a window equal to CRLFCRLF has CRs at its first and third place -/
theorem window_crs (L : Bytes) (j : Nat) (h : (L.drop j).take 4 = C05.crlf2) : L[j]? = some 13 ∧ L[j + 2]? = some 13 := by
  have h0 : ((L.drop j).take 4)[0]? = some 13 := by rw [h]; rfl
  have h2 : ((L.drop j).take 4)[2]? = some 13 := by rw [h]; rfl
  simp only [List.getElem?_take, List.getElem?_drop] at h0 h2
  simp only [Nat.lt_irrefl, Nat.zero_lt_succ, ↓reduceIte, Nat.add_zero] at h0
  exact ⟨h0, by simpa using h2⟩

theorem no13_append {a b : Bytes} (ha : ∀ x ∈ a, x ≠ 13) (hb : ∀ x ∈ b, x ≠ 13) : ∀ x ∈ a ++ b, x ≠ 13 := by
  intro x hx
  rcases List.mem_append.mp hx with h | h
  · exact ha x h
  · exact hb x h

theorem boundary_no13 (n : Nat) : ∀ b ∈ boundary n, b ≠ 13 :=
  no13_append (by decide) (dec_no13 n)

/-- **no CRLFCRLF inside a part header of the reference server** -/
theorem partHdr_noEarly (n total : Nat) (r : Nat × Nat) : NoEarly (partHdr n total r) := by
  intro j hj hw
  obtain ⟨c1, c2⟩ := window_crs _ j hw
  -- the shape: CR LF X1 CR LF X2 CR LF X3 CRLFCRLF
  let X1 : Bytes := [45, 45] ++ boundary n
  let X2 : Bytes := bCT
  let X3 : Bytes := bCR ++ dec r.1 ++ [45] ++ dec r.2 ++ [47] ++ dec total
  have hshape : partHdr n total r ++ C05.crlf2 = 13 :: 10 :: (X1 ++ (13 :: 10 :: (X2 ++ (13 :: 10 :: (X3 ++ C05.crlf2))))) := by
    simp [partHdr, bDelim, X1, X2, X3, List.append_assoc]
  have hlen : (partHdr n total r).length = 2 + X1.length + (2 + X2.length) + (2 + X3.length) := by
    have := congrArg List.length hshape
    simp only [List.length_append, List.length_cons, C05.crlf2, List.length_nil] at this
    omega
  have n1 : ∀ b ∈ X1, b ≠ 13 := no13_append (by decide) (boundary_no13 n)
  have n2 : ∀ b ∈ X2, b ≠ 13 := by decide
  have n3 : ∀ b ∈ X3, b ≠ 13 :=
    no13_append (no13_append (no13_append (no13_append (no13_append (by decide) (dec_no13 _)) (by decide)) (dec_no13 _)) (by decide)) (dec_no13 _)
  rw [hshape] at c1 c2
  obtain ⟨a1, a2, a3⟩ := cr_shift X1 _ n1 (by simp [X1]) j c1 c2
  obtain ⟨b1, b2, b3⟩ := cr_shift X2 _ n2 (by decide) _ a2 a3
  obtain ⟨d1, d2, d3⟩ := cr_shift X3 _ n3 (by simp [X3, bCR]) _ b2 b3
  omega

/-- **no part header in the closing delimiter of the reference server** -/
theorem closing_noHeader (n : Nat) : NoHeader (closing n) := by
  intro j r hr
  obtain ⟨hat, hjr⟩ := scanFrom_inr_at (closing n) j r hr
  obtain ⟨c1, c2⟩ := window_crs _ _ hat
  let X : Bytes := [45, 45] ++ boundary n ++ [45, 45]
  have hshape : closing n = 13 :: 10 :: (X ++ [13, 10]) := by
    simp [closing, bDelim, X, List.append_assoc]
  have nX : ∀ b ∈ X, b ≠ 13 := no13_append (no13_append (by decide) (boundary_no13 n)) (by decide)
  rw [hshape] at c1 c2
  obtain ⟨a1, a2, a3⟩ := cr_shift X _ nX (by simp [X]) _ c1 c2
  generalize r - j - (2 + X.length) = i at a2 a3
  match i with
  | 0 => simp at a3
  | 1 => simp at a2
  | k + 2 => simp at a2

/-! ### what the regex oracle must do on the reference server's responses -/

/-- `regcomp`/`regexec` read the reference server's responses as intended: no boundary in the lines of a single-range
response; in a multipart response the boundary of the Content-Type line is found (and nothing in the other lines), the two
patterns built from it compile, and in every part header the part pattern finds the two numbers of the range.  These are facts
about glibc's regex functions, which the model takes as a parameter.  (That a part header's first CRLFCRLF is its end and that
the closing delimiter holds no part header are facts about the text, proved: `partHdr_noEarly`, `closing_noHeader`.) -/
structure Honest (rx : Rx) (n total : Nat) (items : List (Nat × Nat)) : Prop where
  comp   : rx.comp hdrPattern = true
  single : ∀ r, items = [r] → ∀ l ∈ singleLines total r, rx.hdr (cstr l) = none
  multi  : items.length ≠ 1 → ∀ len l0 l1 l2 l3, mpLines n len = [l0, l1, l2, l3] →
             (∀ l ∈ [l0, l2, l3], rx.hdr (cstr l) = none) ∧
             ∃ so eo, rx.hdr (cstr l1) = some (so, eo) ∧ so ≤ eo ∧ eo ≤ (cstr l1).length ∧ boundaryOf (cstr l1) so eo = boundary n
  compP  : rx.comp (partPattern (boundary n)) = true
  compE  : rx.comp (endPattern (boundary n)) = true
  parts  : ∀ r ∈ items, r.1 ≤ r.2 → r.2 + 1 < W64 → C05.RxFinds rx (partPattern (boundary n)) (partHdr n total r) (r.2 - r.1 + 1)

theorem accepted_lengths (fs : List Bytes) : accepted (fs.map List.length) fs = true := by
  unfold accepted
  simp only [List.length_map, beq_self_eq_true, Bool.true_and]
  induction fs with
  | nil => rfl
  | cons f fs ih => simp [List.zip_cons_cons, ih]

theorem storedOf_ext (th : Hdr) (B : Bytes) (valid : List Int) (x : C10.Ext) (h : ExtOk th valid x) :
    storedOf th B x.number = (B.drop x.start).take x.len := by
  obtain ⟨c, h1, _, h3, _, h5⟩ := h
  unfold storedOf
  rw [h1]
  simp only
  rw [h3, h5]

/-- the extents of the request lie inside the server's file, and its stored bytes hash to the index checksums -/
theorem ext_in_B (H : HashFn) (rx : Rx) (th : Hdr) (B : Bytes) (valid : List Int) (hB : AllPresent (envOf H rx th []) B)
    (x : C10.Ext) (h : ExtOk th valid x) :
    x.start + x.len ≤ B.length ∧ ∃ c, th.chunks[x.number]? = some c ∧ c.compLen = x.len ∧
      H th.chunkHashType ((B.drop x.start).take x.len) = some c.digest := by
  obtain ⟨c, h1, _, h3, h4, h5⟩ := h
  have := hB x.number c h1 (by rw [h3]; exact h4)
  unfold ChunkOk at this
  rw [if_neg (by rw [h3]; exact h4)] at this
  have hoff : (envOf H rx th []).dataOff = th.lead + th.headerLen := rfl
  rw [hoff, h3, ← h5] at this
  exact ⟨this.1, c, h1, h3, this.2⟩

/-! ### one transfer with a well-formed response -/

theorem fresh_st0 (file : Bytes) (valid : List Int) : Fresh ({ file := file, pos := 0, valid := valid } : St) :=
  ⟨rfl, rfl, rfl, rfl, rfl⟩

/-- a single-range response: header lines without a boundary, then the stored bytes of the requested chunks in any pieces -/
theorem session_single (e : Env) (stored : Nat → Bytes) (file : Bytes) (valid : List Int) (l0 l1 l2 l3 : Bytes) (fr : List Bytes)
    (hc : e.rx.comp hdrPattern = true) (hn : ∀ l ∈ [l0, l1, l2, l3], e.rx.hdr (cstr l) = none)
    (hne : e.ridx ≠ []) (hrun : RunIdx 0 e.ridx)
    (hent : ∀ r ∈ e.ridx, EntryOk e stored r ∧ r.tgt < valid.length ∧ valid.getD r.tgt 0 ≠ 1)
    (hnd : (e.ridx.map (·.tgt)).Nodup) (hfs : ∀ f ∈ fr, f ≠ []) (hcat : fr.flatten = payloadOf stored e.ridx) :
    let s := session e file valid [l0, l1, l2, l3] fr
    accepted s.1 [l0, l1, l2, l3] = true ∧ accepted s.2.1 fr = true ∧
    (∀ r ∈ e.ridx, s.2.2.valid.getD r.tgt 0 = 1) ∧
    (∀ k, (∀ r ∈ e.ridx, r.tgt ≠ k) → s.2.2.valid.getD k 0 = valid.getD k 0) := by
  intro s
  have hs : s = session e file valid [l0, l1, l2, l3] fr := rfl
  unfold session at hs
  simp only at hs
  rw [feedHdrs_single e _ l0 l1 l2 l3 rfl hc rfl hn] at hs
  simp only at hs
  have hfr := single_fresh_frags e stored (hdrReady { file := file, pos := 0, valid := valid }) fr true false
    ⟨rfl, rfl, rfl, rfl, rfl⟩ rfl hne hrun hent hnd hfs hcat
  obtain ⟨a1, a2, a3⟩ := hfr
  rw [hs]
  refine ⟨accepted_lengths [l0, l1, l2, l3], ?_, a2, a3⟩
  simp only
  rw [a1]
  exact accepted_lengths fr

/-- a multipart response: the boundary line among the header lines, then the parts in any pieces -/
theorem session_multi (e : Env) (hd : Disj e) (stored : Nat → Bytes) (file : Bytes) (valid : List Int) (l0 l1 l2 l3 : Bytes)
    (bnd : Bytes) (so eo : Nat) (ps : List Part) (gs : List (List RChunk)) (trailer : Bytes) (fr : List Bytes)
    (hc : e.rx.comp hdrPattern = true) (hn : ∀ l ∈ [l0, l2, l3], e.rx.hdr (cstr l) = none)
    (hm : e.rx.hdr (cstr l1) = some (so, eo)) (hso : so ≤ eo ∧ eo ≤ (cstr l1).length) (hb : boundaryOf (cstr l1) so eo = bnd)
    (h1 : e.rx.comp (partPattern bnd) = true) (h2 : e.rx.comp (endPattern bnd) = true)
    (hpay : ps.map (·.payload) = gs.map (payloadOf stored)) (hgne : ∀ g ∈ gs, g ≠ []) (hne : gs ≠ [])
    (hridx : e.ridx = gs.flatten) (hrun : RunIdx 0 e.ridx)
    (hent : ∀ r ∈ e.ridx, EntryOk e stored r ∧ r.tgt < valid.length ∧ valid.getD r.tgt 0 ≠ 1)
    (hnd : (e.ridx.map (·.tgt)).Nodup) (hok : ∀ p ∈ ps, PartOk e.rx (partPattern bnd) p) (htr : NoHeader trailer)
    (hfs : ∀ f ∈ fr, f ≠ []) (hcat : fr.flatten = partsBytes ps ++ trailer) :
    let s := session e file valid [l0, l1, l2, l3] fr
    accepted s.1 [l0, l1, l2, l3] = true ∧ accepted s.2.1 fr = true ∧
    (∀ r ∈ e.ridx, s.2.2.valid.getD r.tgt 0 = 1) ∧
    (∀ k, (∀ r ∈ e.ridx, r.tgt ≠ k) → s.2.2.valid.getD k 0 = valid.getD k 0) := by
  intro s
  have hs : s = session e file valid [l0, l1, l2, l3] fr := rfl
  unfold session at hs
  simp only at hs
  rw [feedHdrs_multi e _ l0 l1 l2 l3 so eo rfl hc rfl hn hm hso, hb] at hs
  simp only at hs
  have hfr := multipart_complete_frags_null e hd stored
    ({ hdrReady { file := file, pos := 0, valid := valid } with mp := {}, boundary := some bnd } : St) ps gs trailer fr true false
    ⟨rfl, rfl, rfl, rfl, rfl⟩ rfl rfl rfl h1 h2 hpay hgne hne hridx hrun hent hnd hok htr hfs hcat
  obtain ⟨a1, a2, a3, _, _⟩ := hfr
  rw [hs]
  refine ⟨accepted_lengths [l0, l1, l2, l3], ?_, a2, a3⟩
  simp only
  rw [a1]
  exact accepted_lengths fr

/-! ### one round of the fetch loop -/

theorem round_of_session (n : Nat) (H : HashFn) (rx : Rx) (B : Bytes) (th : Hdr) (limit : Int) (frag : Nat) (file : Bytes)
    (valid : List Int) (rs : List (Nat × Nat)) (hi : (reqOf th limit valid).items ≠ [])
    (hclip : clip B.length (reqOf th limit valid).items = some rs)
    (hacc : accepted (session { H := H, rx := rx, hdr := th, ridx := mkRidx (reqOf th limit valid).index 0 } file valid
      (respond n B rs).1 (pieces frag (respond n B rs).2)).1 (respond n B rs).1 = true) :
    ∃ r, Update.round n H rx B th limit frag none file valid =
      (r, some ((session { H := H, rx := rx, hdr := th, ridx := mkRidx (reqOf th limit valid).index 0 } file valid
          (respond n B rs).1 (pieces frag (respond n B rs).2)).2.2.file,
        (session { H := H, rx := rx, hdr := th, ridx := mkRidx (reqOf th limit valid).index 0 } file valid
          (respond n B rs).1 (pieces frag (respond n B rs).2)).2.2.valid,
        accepted (session { H := H, rx := rx, hdr := th, ridx := mkRidx (reqOf th limit valid).index 0 } file valid
          (respond n B rs).1 (pieces frag (respond n B rs).2)).2.1 (pieces frag (respond n B rs).2))) := by
  unfold Update.round
  simp only
  have hrt := rtext_nonempty (reqOf th limit valid).items hi
  rw [hrt]
  simp only [Bool.false_eq_true, ↓reduceIte, hclip, cutBody]
  have hie : (reqOf th limit valid).items.isEmpty = false := by
    cases hh : (reqOf th limit valid).items with
    | nil => exact absurd hh hi
    | cons a r => rfl
  simp only [hie, Bool.false_eq_true, ↓reduceIte]
  rw [if_neg (by rw [hacc]; simp)]
  exact ⟨_, rfl⟩

theorem getLastD_mem_ne (g : List C10.Ext) (h : g ≠ []) : g.getLastD dflt ∈ g := by
  cases g with
  | nil => exact absurd rfl h
  | cons a r => rw [List.getLastD_cons]; exact getLastD_mem r a

/-- **one round with a well-formed response**: the round is carried out, every body fragment is accepted, every requested chunk
ends up marked valid, no other mark changes, and something was requested -/
theorem round_complete (n : Nat) (H : HashFn) (rx : Rx) (B : Bytes) (th : Hdr) (limit : Int) (frag : Nat) (file : Bytes)
    (valid : List Int) (hrun : C13.RunFrom 0 0 th.chunks)
    (hbound : th.lead + th.headerLen + C13.sumLen th.chunks < 2^64) (hBsmall : B.length < W64)
    (hB : AllPresent (envOf H rx th []) B) (hvl : valid.length = th.chunks.length)
    (hmiss : ∃ k c, th.chunks[k]? = some c ∧ valid.getD k 0 = 0 ∧ c.compLen ≠ 0)
    (hon : Honest rx n B.length (reqOf th limit valid).items) :
    ∃ r f v, Update.round n H rx B th limit frag none file valid = (r, some (f, v, true)) ∧
      (reqOf th limit valid).index ≠ [] ∧
      (∀ p ∈ (reqOf th limit valid).index, v.getD p.1 0 = 1) ∧
      (∀ k, (∀ p ∈ (reqOf th limit valid).index, p.1 ≠ k) → v.getD k 0 = valid.getD k 0) := by
  obtain ⟨gs, hgne, hg, hx, hitems, hindex, hnd⟩ := req_ready th limit valid hrun hbound hmiss
  have hon' : Honest rx n B.length (gs.map spanOf) := hitems ▸ hon
  -- every extent of the request lies in the server's file
  have hin : ∀ x ∈ gs.flatten, x.start + x.len ≤ B.length := fun x hx' => (ext_in_B H rx th B valid hB x (hx x hx').2).1
  have hmemg : ∀ g ∈ gs, ∀ x ∈ g, x ∈ gs.flatten := fun g hg' x hx' => List.mem_flatten.mpr ⟨g, hg', hx'⟩
  -- spans
  have hspan : ∀ g ∈ gs, (spanOf g).1 ≤ (spanOf g).2 ∧ (spanOf g).2 < B.length := by
    intro g hg'
    have hl := getLastD_mem_ne g (hg g hg').1
    have hpos := (hx _ (hmemg g hg' _ hl)).1
    have hb := hin _ (hmemg g hg' _ hl)
    obtain ⟨i1, _, _⟩ := slice_group B g (hg g hg').1 (hg g hg').2 (fun x hx' => (hx x (hmemg g hg' x hx')).1)
    have h2 : (spanOf g).2 = (g.getLastD dflt).start + (g.getLastD dflt).len - 1 := rfl
    have hs : 0 < sumLens g := by
      cases g with
      | nil => exact absurd rfl (hg [] hg').1
      | cons a r => simp only [sumLens]; have := (hx a (hmemg _ hg' a (by simp))).1; omega
    omega
  -- the slices the server sends are the stored bytes of the groups
  have hslice : ∀ g ∈ gs, sliceIncl B (spanOf g) = (g.map fun x => storedOf th B x.number).flatten := by
    intro g hg'
    rw [sliceIncl_group B g (hg g hg').1 (hg g hg').2 (fun x hx' => (hx x (hmemg g hg' x hx')).1)]
    congr 1
    apply List.map_congr_left
    intro x hx'
    exact (storedOf_ext th B valid x (hx x (hmemg g hg' x hx')).2).symm
  -- the environment of the transfer
  generalize he : ({ H := H, rx := rx, hdr := th, ridx := mkRidx (reqOf th limit valid).index 0 } : Env) = e
  have hridx : e.ridx = (mkGroups gs 0).flatten := by rw [← he, hindex, mkGroups_flatten]
  have hridx' : e.ridx = mkRidx (toIdx gs.flatten) 0 := by rw [← he, hindex]
  have hrunidx : RunIdx 0 e.ridx := by
    rw [hridx']
    apply runIdx_mkRidx
    intro p hp
    simp only [toIdx, List.mem_map] at hp
    obtain ⟨x, hx', rfl⟩ := hp
    exact (hx x hx').1
  have hent : ∀ r ∈ e.ridx, EntryOk e (storedOf th B) r ∧ r.tgt < valid.length ∧ valid.getD r.tgt 0 ≠ 1 := by
    intro r hr
    rw [hridx'] at hr
    obtain ⟨x, hx', h1, h2⟩ := mem_mkRidx _ _ r hr
    have hxo := (hx x hx').2
    obtain ⟨hlenB, c, hc1, hc2, hc3⟩ := ext_in_B H rx th B valid hB x hxo
    obtain ⟨_, _, hv0, _, _, _⟩ := hxo
    have hst := storedOf_ext th B valid x (hx x hx').2
    refine ⟨⟨c, ?_, ?_, ?_, ?_⟩, ?_, ?_⟩
    · rw [← he, h1]; exact hc1
    · rw [h2, hc2]
    · rw [h1, hst, h2]; simp only [List.length_take, List.length_drop]; omega
    · rw [← he, h1, hst]; exact hc3
    · rw [h1, hvl]
      have := List.getElem?_eq_some_iff.mp hc1
      exact this.1
    · rw [h1, hv0]; simp
  have hndr : (e.ridx.map (·.tgt)).Nodup := by
    rw [hridx', mkRidx_tgts]; exact hnd
  have hd : Disj e := by
    rw [← he]; exact disj_of_runFrom _ hrun
  have hitemsne : (reqOf th limit valid).items ≠ [] := by
    rw [hitems]; intro h; exact hgne (List.map_eq_nil_iff.mp h)
  have hclip : clip B.length (reqOf th limit valid).items = some (gs.map spanOf) := by
    unfold clip
    have hie : (reqOf th limit valid).items.isEmpty = false := by
      cases hh : (reqOf th limit valid).items with
      | nil => exact absurd hh hitemsne
      | cons a r => rfl
    rw [hie, hitems]
    simp only [Bool.false_eq_true, ↓reduceIte]
    apply clip_ok
    intro p hp
    obtain ⟨g, hg', rfl⟩ := List.mem_map.mp hp
    exact hspan g hg'
  -- the transfer itself
  have hsess : let s := session e file valid (respond n B (gs.map spanOf)).1 (pieces frag (respond n B (gs.map spanOf)).2)
      accepted s.1 (respond n B (gs.map spanOf)).1 = true ∧ accepted s.2.1 (pieces frag (respond n B (gs.map spanOf)).2) = true ∧
      (∀ r ∈ e.ridx, s.2.2.valid.getD r.tgt 0 = 1) ∧
      (∀ k, (∀ r ∈ e.ridx, r.tgt ≠ k) → s.2.2.valid.getD k 0 = valid.getD k 0) := by
    have hrxe : e.rx = rx := by rw [← he]
    match gs, hgne, hg, hslice, hspan, hon', hridx with
    | [g], _, hg, hslice, hspan, hon', hridx =>
      -- one range: a plain body
      have hresp : respond n B ([g].map spanOf) = (singleLines B.length (spanOf g), sliceIncl B (spanOf g)) := rfl
      rw [hresp]
      have hps := pieces_spec frag (sliceIncl B (spanOf g))
      have hpay : sliceIncl B (spanOf g) = payloadOf (storedOf th B) e.ridx := by
        rw [hridx, hslice g (by simp)]
        simp only [mkGroups, List.flatten_cons, List.flatten_nil, List.append_nil]
        rw [payloadOf_mkRidx]
      exact session_single e (storedOf th B) file valid _ _ _ _ _ (by rw [hrxe]; exact hon'.comp)
        (by rw [hrxe]; exact hon'.single (spanOf g) rfl)
        (by rw [hridx]; simp only [mkGroups, List.flatten_cons, List.flatten_nil, List.append_nil]
            have := (hg g (by simp)).1
            cases g with
            | nil => exact absurd rfl this
            | cons a r => simp [toIdx, mkRidx])
        hrunidx hent hndr hps.2 (by rw [hps.1]; exact hpay)
    | g1 :: g2 :: rest, _, hg, hslice, hspan, hon', hridx =>
      -- several ranges: multipart
      have hlen1 : ((g1 :: g2 :: rest).map spanOf).length ≠ 1 := by simp
      generalize hits : (g1 :: g2 :: rest).map spanOf = items at hon' hlen1
      have hitm : ∀ r ∈ items, ∃ g ∈ (g1 :: g2 :: rest), r = spanOf g := by
        intro r hr; rw [← hits] at hr; obtain ⟨g, hg', rfl⟩ := List.mem_map.mp hr; exact ⟨g, hg', rfl⟩
      have hresp : respond n B items =
          (mpLines n ((items.map fun r => partHdr n B.length r ++ Update.crlf2 ++ sliceIncl B r).flatten ++ closing n).length,
           (items.map fun r => partHdr n B.length r ++ Update.crlf2 ++ sliceIncl B r).flatten ++ closing n) := by
        rw [← hits]; rfl
      rw [hresp]
      simp only
      generalize hbody : (items.map fun r => partHdr n B.length r ++ Update.crlf2 ++ sliceIncl B r).flatten ++ closing n = body
      obtain ⟨hnone, so, eo, hm, hso1, hso2, hbnd⟩ := hon'.multi hlen1 body.length _ _ _ _ rfl
      have hps := pieces_spec frag body
      let ps : List Part := items.map fun r => (⟨partHdr n B.length r, sliceIncl B r⟩ : Part)
      have hpsb : partsBytes ps ++ closing n = body := by
        rw [← hbody]
        congr 1
        simp only [partsBytes, ps, List.map_map]
        rfl
      have hpay : ps.map (·.payload) = (mkGroups (g1 :: g2 :: rest) 0).map (payloadOf (storedOf th B)) := by
        rw [mkGroups_payload]
        simp only [ps, List.map_map]
        rw [← hits, List.map_map]
        apply List.map_congr_left
        intro g hg'
        exact hslice g hg'
      have hok : ∀ p ∈ ps, PartOk e.rx (partPattern (boundary n)) p := by
        intro p hp
        obtain ⟨r, hr, rfl⟩ := List.mem_map.mp hp
        obtain ⟨g, hg', rfl⟩ := hitm r hr
        have hsp := hspan g hg'
        have hlen : (sliceIncl B (spanOf g)).length = (spanOf g).2 - (spanOf g).1 + 1 := by
          unfold sliceIncl
          simp only [List.length_take, List.length_drop]
          omega
        have hh := hon'.parts (spanOf g) hr hsp.1 (by omega)
        rw [hrxe]
        refine ⟨partHdr_noEarly n B.length (spanOf g), ?_, ?_, ?_⟩
        · intro h
          have := congrArg List.length h
          simp only at this
          rw [hlen] at this
          simp at this
        · show (sliceIncl B (spanOf g)).length < W64
          rw [hlen]; omega
        · show ∃ a1 b1 a2 b2, _ ∧ _ ∧ _ ∧ _ ∧ _ ∧ _ = (sliceIncl B (spanOf g)).length
          rw [hlen]
          exact hh
      exact session_multi e hd (storedOf th B) file valid _ _ _ _ (boundary n) so eo ps (mkGroups (g1 :: g2 :: rest) 0) (closing n) _
        (by rw [hrxe]; exact hon'.comp) (by rw [hrxe]; exact hnone) (by rw [hrxe]; exact hm) ⟨hso1, hso2⟩ hbnd
        (by rw [hrxe]; exact hon'.compP) (by rw [hrxe]; exact hon'.compE) hpay
        (mkGroups_ne _ 0 (fun g hg' => (hg g hg').1)) (by simp [mkGroups]) hridx hrunidx hent hndr hok (closing_noHeader n) hps.2
        (by rw [hps.1, hpsb])
  obtain ⟨r, hr⟩ := round_of_session n H rx B th limit frag file valid (gs.map spanOf) hitemsne hclip (by rw [he]; exact hsess.1)
  rw [he] at hr
  refine ⟨r, (session e file valid (respond n B (gs.map spanOf)).1 (pieces frag (respond n B (gs.map spanOf)).2)).2.2.file,
    (session e file valid (respond n B (gs.map spanOf)).1 (pieces frag (respond n B (gs.map spanOf)).2)).2.2.valid, ?_, ?_, ?_, ?_⟩
  · rw [hr, hsess.2.1]
  · rw [hindex]; intro h
    have hfl : gs.flatten = [] := by simpa [toIdx] using h
    cases gs with
    | nil => exact hgne rfl
    | cons g rest =>
      have hgn := (hg g (by simp)).1
      simp only [List.flatten_cons, List.append_eq_nil_iff] at hfl
      exact hgn hfl.1
  · intro p hp
    rw [hindex] at hp
    simp only [toIdx, List.mem_map] at hp
    obtain ⟨x, hx', rfl⟩ := hp
    have : x.number ∈ e.ridx.map (·.tgt) := by rw [hridx', mkRidx_tgts]; exact List.mem_map_of_mem hx'
    obtain ⟨r', hr', hrt⟩ := List.mem_map.mp this
    rw [← hrt]
    exact hsess.2.2.1 r' hr'
  · intro k hk
    apply hsess.2.2.2 k
    intro r' hr' heq
    have : r'.tgt ∈ e.ridx.map (·.tgt) := List.mem_map_of_mem hr'
    rw [hridx', mkRidx_tgts] at this
    obtain ⟨x, hx', hxn⟩ := List.mem_map.mp this
    apply hk (x.number, x.len)
    · rw [hindex]; exact List.mem_map_of_mem hx'
    · simp only; rw [hxn]; exact heq


/-! ### the list of marks keeps its length -/

theorem vlen_preserved (e : Env) (n : Nat) : Preserved e (fun st => st.valid.length = n) where
  frame := fun _ _ h _ _ h3 _ _ _ => by rw [h3]; exact h
  write := fun st at_ h => by
    unfold dlWrite
    by_cases hw : st.writeInChunk > 0
    · simp only [hw, ↓reduceIte]
      generalize (if st.writeInChunk < at_.length then st.writeInChunk else at_.length) = wb
      by_cases h0 : wb = 0
      · simp only [h0, ↓reduceIte]; exact h
      · simp only [h0, ↓reduceIte]
        cases st.hash <;> exact h
    · simp only [hw, ↓reduceIte]; exact h
  verify := fun st h hw => by
    unfold dlVerify
    split
    · rename_i k _
      unfold setChunkValid
      cases e.hdr.chunks[k]? with
      | none => exact ⟨h, hw⟩
      | some tc =>
        simp only
        cases hh : st.hash with
        | none => simp only [zeroChunk, List.length_set]; exact ⟨h, hw⟩
        | some acc =>
          simp only
          generalize (if tc.compLen = 0 then (hsize e.hdr.chunkHashType).map zeros else e.H e.hdr.chunkHashType acc) = dg
          by_cases hd : (dg == some tc.digest) = true
          · simp only [hd, ↓reduceIte, List.length_set]; exact ⟨h, hw⟩
          · simp only [hd, Bool.false_eq_true, ↓reduceIte, zeroChunk, List.length_set]; exact ⟨h, hw⟩
    · exact ⟨h, hw⟩
  opens := fun st h _ => by
    unfold dlOpen
    simp only
    split
    · split
      · exact h
      · exact h
    · exact h

theorem session_vlen (e : Env) (file : Bytes) (valid : List Int) (lines frags : List Bytes) :
    (session e file valid lines frags).2.2.valid.length = valid.length := by
  unfold session
  exact pres_feed e (vlen_preserved e valid.length) true false frags _ []
    (pres_feedHdrs e (vlen_preserved e valid.length) lines { file := file, pos := 0, valid := valid } [] rfl)

theorem round_vlen (n : Nat) (H : HashFn) (rx : Rx) (B : Bytes) (th : Hdr) (limit : Int) (frag : Nat) (cut : Option Nat)
    (file : Bytes) (valid : List Int) (r : String) (f : Bytes) (v : List Int) (ok : Bool)
    (h : Update.round n H rx B th limit frag cut file valid = (r, some (f, v, ok))) : v.length = valid.length := by
  obtain ⟨ridx, lines, frags, _, rfl⟩ := round_some n H rx B th limit frag cut file valid r f v ok h
  exact session_vlen _ _ _ _ _

/-! ### counting the marks that are still 0 -/

theorem countEq_cons (x : Int) (l : List Int) (y : Int) : countEq (x :: l) y = (if x == y then 1 else 0) + countEq l y := by
  unfold countEq
  simp only [List.filter_cons]
  split <;> simp <;> omega

/-- marks change only from 0 to 1: the number of zeros does not grow, and shrinks when a mark changed -/
theorem countEq_le : ∀ (a b : List Int), a.length = b.length →
    (∀ k, b.getD k 0 = a.getD k 0 ∨ (a.getD k 0 = 0 ∧ b.getD k 0 = 1)) →
    countEq b 0 ≤ countEq a 0 ∧
    ((∃ k, k < a.length ∧ a.getD k 0 = 0 ∧ b.getD k 0 = 1) → countEq b 0 < countEq a 0)
  | [], [], _, _ => ⟨Nat.le_refl _, fun ⟨k, hk, _⟩ => by simp at hk⟩
  | [], _ :: _, h, _ => by simp at h
  | _ :: _, [], h, _ => by simp at h
  | x :: a, y :: b, hl, hk => by
    have ih := countEq_le a b (by simpa using hl) (fun k => by have := hk (k + 1); simpa using this)
    have h0 := hk 0
    simp only [List.getD_cons_zero] at h0
    rw [countEq_cons, countEq_cons]
    refine ⟨?_, ?_⟩
    · rcases h0 with h | ⟨h1, h2⟩
      · rw [h]; have := ih.1; omega
      · rw [h1, h2]; have := ih.1; simp; omega
    · rintro ⟨k, hkl, hk1, hk2⟩
      cases k with
      | zero =>
        simp only [List.getD_cons_zero] at hk1 hk2
        rw [hk1, hk2]; have := ih.1; simp; omega
      | succ k' =>
        have := ih.2 ⟨k', by simpa using hkl, by simpa using hk1, by simpa using hk2⟩
        rcases h0 with h | ⟨h1, h2⟩
        · rw [h]; omega
        · rw [h1, h2]; simp; omega

theorem countEq_pos (v : List Int) (h : countEq v 0 ≠ 0) : ∃ k, k < v.length ∧ v.getD k 0 = 0 := by
  induction v with
  | nil => simp [countEq] at h
  | cons x v ih =>
    by_cases hx : x = 0
    · exact ⟨0, by simp, by simp [hx]⟩
    · rw [countEq_cons] at h
      have : (x == (0 : Int)) = false := by simpa using hx
      rw [this] at h
      obtain ⟨k, hk1, hk2⟩ := ih (by simpa using h)
      exact ⟨k + 1, by simpa using hk1, by simpa using hk2⟩

theorem countEq_zero (v : List Int) (h : countEq v 0 = 0) : ∀ k, k < v.length → v.getD k 0 ≠ 0 := by
  induction v with
  | nil => intro k hk; simp at hk
  | cons x v ih =>
    rw [countEq_cons] at h
    intro k hk
    cases k with
    | zero =>
      simp only [List.getD_cons_zero]
      intro hx
      rw [hx] at h; simp at h
    | succ k' =>
      have := ih (by omega) k' (by simpa using hk)
      simpa using this

/-! ### the fetch loop with well-formed responses -/

/-- the marks at the start of a round: one per chunk, each 0 (missing) or 1 (valid), chunks without stored bytes valid -/
structure Marks (th : Hdr) (valid : List Int) : Prop where
  len  : valid.length = th.chunks.length
  bin  : ∀ k, valid.getD k 0 = 0 ∨ valid.getD k 0 = 1
  zero : ∀ k c, th.chunks[k]? = some c → c.compLen = 0 → valid.getD k 0 = 1

/-- **the fetch loop terminates with everything valid** when every response is well formed: by induction over the number of
marks that are still 0, which every round reduces -/
theorem loop_complete (H : HashFn) (rx : Rx) (B : Bytes) (th : Hdr) (limit : Int) (frag : Nat)
    (hrun : C13.RunFrom 0 0 th.chunks) (hbound : th.lead + th.headerLen + C13.sumLen th.chunks < 2^64)
    (hBsmall : B.length < W64) (hB : AllPresent (envOf H rx th []) B)
    (hon : ∀ n valid', Marks th valid' → Honest rx (n + 1) B.length (reqOf th limit valid').items) :
    ∀ (fuel : Nat) (file : Bytes) (valid : List Int) (reqs : List String) (n : Nat), Marks th valid → countEq valid 0 < fuel →
    let out := Update.loop H rx B th limit frag none fuel file valid reqs n
    out.2.2.2.2 = none ∧ Marks th out.2.1 ∧ countEq out.2.1 0 = 0
  | 0, _, _, _, _, _, hf => by omega
  | fuel + 1, file, valid, reqs, n, hm, hf => by
    intro out
    have hout : out = Update.loop H rx B th limit frag none (fuel + 1) file valid reqs n := rfl
    unfold Update.loop at hout
    by_cases h0 : countEq valid 0 = 0
    · rw [if_pos h0] at hout
      rw [hout]
      exact ⟨rfl, hm, h0⟩
    · rw [if_neg h0] at hout
      obtain ⟨k, hk1, hk2⟩ := countEq_pos valid h0
      have hkc : k < th.chunks.length := by rw [← hm.len]; exact hk1
      have hmiss : ∃ k c, th.chunks[k]? = some c ∧ valid.getD k 0 = 0 ∧ c.compLen ≠ 0 := by
        refine ⟨k, th.chunks[k], List.getElem?_eq_getElem hkc, hk2, ?_⟩
        intro hz
        have := hm.zero k th.chunks[k] (List.getElem?_eq_getElem hkc) hz
        omega
      obtain ⟨r, f, v, hr, hidx, hv1, hv2⟩ := round_complete (n + 1) H rx B th limit frag file valid hrun hbound hBsmall hB hm.len hmiss
        (hon n valid hm)
      have hvl := round_vlen _ H rx B th limit frag none file valid r f v true hr
      simp only at hout
      rw [hr] at hout
      simp only at hout
      -- what the request contained
      have hreq := request_only_missing th limit valid hrun hbound
      have hstep : ∀ j, v.getD j 0 = valid.getD j 0 ∨ (valid.getD j 0 = 0 ∧ v.getD j 0 = 1) := by
        intro j
        by_cases hj : ∃ p ∈ (reqOf th limit valid).index, p.1 = j
        · obtain ⟨p, hp, rfl⟩ := hj
          obtain ⟨c, _, hc0, _⟩ := hreq p hp
          exact Or.inr ⟨hc0, hv1 p hp⟩
        · exact Or.inl (hv2 j (fun p hp heq => hj ⟨p, hp, heq⟩))
      have hlt : countEq v 0 < countEq valid 0 := by
        apply (countEq_le valid v hvl.symm hstep).2
        cases hix : (reqOf th limit valid).index with
        | nil => exact absurd hix hidx
        | cons p rest =>
          have hp : p ∈ (reqOf th limit valid).index := by rw [hix]; exact List.mem_cons_self
          obtain ⟨c, hc, hc0, _⟩ := hreq p hp
          have hpl : p.1 < th.chunks.length := (List.getElem?_eq_some_iff.mp hc).1
          exact ⟨p.1, by rw [hm.len]; exact hpl, hc0, hv1 p hp⟩
      have hm' : Marks th v := by
        refine ⟨by rw [hvl, hm.len], ?_, ?_⟩
        · intro j
          rcases hstep j with h | ⟨_, h⟩
          · rw [h]; exact hm.bin j
          · exact Or.inr h
        · intro j c hc hz
          rcases hstep j with h | ⟨_, h⟩
          · rw [h]; exact hm.zero j c hc hz
          · exact h
      have ih := loop_complete H rx B th limit frag hrun hbound hBsmall hB hon fuel f v (r :: reqs) (n + 1) hm' (by omega)
      rw [hout]
      exact ih

/-- all marks are 1 once none is 0 -/
theorem marks_all_valid (th : Hdr) (v : List Int) (hm : Marks th v) (h0 : countEq v 0 = 0) :
    (v.length == th.chunks.length && v.all (· == 1)) = true := by
  simp only [Bool.and_eq_true, beq_iff_eq, List.all_eq_true]
  refine ⟨hm.len, ?_⟩
  intro x hx
  obtain ⟨k, hk, rfl⟩ := List.mem_iff_getElem.mp hx
  have h1 := countEq_zero v h0 k hk
  have h2 := hm.bin k
  simp only [List.getD_eq_getElem?_getD, List.getElem?_eq_getElem hk, Option.getD_some] at h1 h2
  rcases h2 with h | h
  · exact absurd h h1
  · rw [h]

theorem countEq_le_length (v : List Int) (x : Int) : countEq v x ≤ v.length := by
  unfold countEq
  exact List.length_filter_le _ _

/-- **C04 (completeness of the procedure after the header is in place)**: when the scan has left something to do and the marks
after scan, copy and reset are one per chunk, 0 or 1, with the chunks without stored bytes valid; the server's file `B` has every
chunk of the index present; and every response is well formed (`Honest`: the regex oracle reads the reference server's responses
as intended) — then for ANY old file, limit and fragment size the procedure ends WITHOUT error and with EVERY chunk marked valid -/
theorem afterHeader_complete (H : HashFn) (rx : Rx) (A : Option Bytes) (B : Bytes) (limit : Int) (frag : Nat) (o : Out)
    (t2 : Bytes) (th : Hdr) (hrun : C13.RunFrom 0 0 th.chunks)
    (hbound : th.lead + th.headerLen + C13.sumLen th.chunks < 2^64) (ho : o.err = none)
    (hsc0 : (Reader.validateChecksums H t2 (Reader.openCtx th)).1 ≠ 0)
    (hsc1 : (Reader.validateChecksums H t2 (Reader.openCtx th)).1 ≠ 1)
    (hmarks : Marks th (resetFailed (copyFrom H A th ⟨t2, (Reader.validateChecksums H t2 (Reader.openCtx th)).2.valid⟩).valid))
    (hBsmall : B.length < W64) (hB : AllPresent (envOf H rx th []) B)
    (hon : ∀ n valid', Marks th valid' → Honest rx (n + 1) B.length (reqOf th limit valid').items) :
    let out := afterHeader H rx A B limit frag none o t2 th
    out.err = none ∧ out.allValid = true := by
  intro out
  have hout : out = afterHeader H rx A B limit frag none o t2 th := rfl
  unfold afterHeader at hout
  simp only [hsc0, hsc1, ↓reduceIte] at hout
  generalize copyFrom H A th ⟨t2, (Reader.validateChecksums H t2 (Reader.openCtx th)).2.valid⟩ = t at hmarks hout
  have hfuel : countEq (resetFailed t.valid) 0 < th.chunks.length + 3 := by
    have := countEq_le_length (resetFailed t.valid) 0
    rw [hmarks.len] at this
    omega
  have hl := loop_complete H rx B th limit frag hrun hbound hBsmall hB hon (th.chunks.length + 3) t.f (resetFailed t.valid) [] 0
    hmarks hfuel
  simp only at hl
  generalize Update.loop H rx B th limit frag none (th.chunks.length + 3) t.f (resetFailed t.valid) [] 0 = r at hl hout
  obtain ⟨h1, h2, h3⟩ := hl
  rw [h1] at hout
  simp only at hout
  rw [hout]
  unfold finish
  exact ⟨ho, marks_all_valid th r.2.1 h2 h3⟩

/-- **C04 (headline)**: under the hypotheses of `afterHeader_complete` and `update_yields_B` together, the procedure ends without
error and leaves the target BYTE-IDENTICAL to the server's file `B` — or two different byte strings with the same chunk
checksum exist -/
theorem update_complete (H : HashFn) (rx : Rx) (A : Option Bytes) (B : Bytes) (limit : Int) (frag : Nat) (o : Out)
    (t2 : Bytes) (th : Hdr) (hh : HdrOk H t2 th) (ho : o.err = none)
    (hA : ∀ a ah, A = some a → Header.openFile H a = .ok ah → ah.chunkHashType = th.chunkHashType)
    (hBlen : B.length = th.lead + th.headerLen + th.dataLen)
    (hBhdr : ∀ i, i < th.lead + th.headerLen → B.getD i 0 = t2.getD i 0)
    (hBok : AllPresent (envOf H rx th []) B)
    (hsc0 : (Reader.validateChecksums H t2 (Reader.openCtx th)).1 ≠ 0)
    (hsc1 : (Reader.validateChecksums H t2 (Reader.openCtx th)).1 ≠ 1)
    (hmarks : Marks th (resetFailed (copyFrom H A th ⟨t2, (Reader.validateChecksums H t2 (Reader.openCtx th)).2.valid⟩).valid))
    (hon : ∀ n valid', Marks th valid' → Honest rx (n + 1) B.length (reqOf th limit valid').items) :
    let out := afterHeader H rx A B limit frag none o t2 th
    out.err = none ∧ (out.file = B ∨ Collision H th.chunkHashType) := by
  intro out
  have hs := C13.open_sound H t2 th hh.opened hh.small
  have hrun := hs.2.2.1
  have hbound : th.lead + th.headerLen + C13.sumLen th.chunks < 2^64 := by
    have := hs.2.2.2.2; rw [hs.2.2.2.1] at this; omega
  have hBsmall : B.length < W64 := by
    rw [hBlen]; have := hs.2.2.2.2; unfold W64; omega
  have hc := afterHeader_complete H rx A B limit frag o t2 th hrun hbound ho hsc0 hsc1 hmarks hBsmall hBok hon
  exact ⟨hc.1, update_yields_B H rx A B limit frag none o t2 th hh hA hBlen hBhdr hBok hc.1 hc.2⟩


/-! ### the marks after scan, copy and reset -/

/-- every mark is 0 (missing), 1 (valid) or -1 (failed) -/
def Tri (v : List Int) : Prop := ∀ x ∈ v, x = 0 ∨ x = 1 ∨ x = -1

theorem tri_set (v : List Int) (k : Nat) (x : Int) (h : Tri v) (hx : x = 0 ∨ x = 1 ∨ x = -1) : Tri (v.set k x) := by
  intro y hy
  rcases List.mem_or_eq_of_mem_set hy with h1 | h1
  · exact h y h1
  · rw [h1]; exact hx

theorem scanValue_tri (H : HashFn) (hdr : Hdr) (ch : Chunk) (got : Bytes) (tr : Bool) :
    scanValue H hdr ch got tr = 1 ∨ scanValue H hdr ch got tr = -1 := by
  unfold scanValue
  cases H hdr.chunkHashType got with
  | none => right; rfl
  | some d =>
    simp only
    generalize (if ch.compLen = 0 then zeros d.length else d) = d'
    by_cases ht : tr = true
    · right; simp [ht]
    · by_cases hd : d' = ch.digest
      · left; simp [ht, hd]
      · right; simp [ht, hd]

theorem scanLoop_tri (H : HashFn) (f : Bytes) (hdr : Hdr) (useFull : Bool) :
    ∀ (cs : List Chunk) (k pos : Nat) (full : Option Bytes) (valid : List Int) (ag : Bool), Tri valid →
      Tri (scanLoop H f hdr useFull cs k pos full valid ag).2.2.1 ∧
      (scanLoop H f hdr useFull cs k pos full valid ag).2.2.1.length = valid.length := by
  intro cs
  induction cs with
  | nil => intro _ _ _ valid _ h; exact ⟨h, rfl⟩
  | cons c cs ih =>
    intro k pos full valid ag h
    unfold scanLoop
    split
    · have h1 : Tri (setValid valid 0 1) := tri_set valid 0 1 h (Or.inr (Or.inl rfl))
      have hl : (setValid valid 0 1).length = valid.length := by simp [setValid]
      simp only
      split
      · exact ⟨h1, hl⟩
      · have := ih (k + 1) pos full (setValid valid 0 1) ag h1
        exact ⟨this.1, by rw [this.2, hl]⟩
    · simp only
      have hv := scanValue_tri H hdr c (readPieces f pos c.compLen).1 (readPieces f pos c.compLen).2.2
      have h1 : Tri (setValid valid k (scanValue H hdr c (readPieces f pos c.compLen).1 (readPieces f pos c.compLen).2.2)) :=
        tri_set valid k _ h (by rcases hv with h' | h' <;> rw [h'] <;> simp)
      have hl : (setValid valid k (scanValue H hdr c (readPieces f pos c.compLen).1 (readPieces f pos c.compLen).2.2)).length = valid.length := by
        simp [setValid]
      split
      · exact ⟨h1, hl⟩
      · rename_i hdet
        refine ⟨?_, ?_⟩
        · exact (ih (k + 1) _ _ _ _ h1).1
        · rw [(ih (k + 1) _ _ _ _ h1).2, hl]

theorem validateChecksums_tri (H : HashFn) (f : Bytes) (c : Ctx) (h : Tri c.valid) :
    Tri (validateChecksums H f c).2.valid ∧ (validateChecksums H f c).2.valid.length = c.valid.length := by
  unfold validateChecksums
  split
  · exact ⟨h, rfl⟩
  · have hs := fun u => scanLoop_tri H f c.hdr u c.hdr.chunks 0 (dataOff c) (some []) c.valid true h
    simp only
    generalize hu : (decide ¬flag4 c = true) = u
    have hsu := hs u
    generalize scanLoop H f c.hdr u c.hdr.chunks 0 (dataOff c) (some []) c.valid true = r at hsu
    obtain ⟨r1, r2, r3, r4⟩ := r
    simp only at hsu ⊢
    have hall : Tri (List.map (fun _ => (-1 : Int)) r3) ∧ (List.map (fun _ => (-1 : Int)) r3).length = c.valid.length := by
      refine ⟨?_, by simp [hsu.2]⟩
      intro x hx
      simp only [List.mem_map] at hx
      obtain ⟨_, _, rfl⟩ := hx
      right; right; rfl
    by_cases h1 : flag4 c ∨ c.hdr.detached = true
    · simp only [h1, ↓reduceIte]; exact hsu
    · simp only [h1, ↓reduceIte]
      by_cases h2 : r4 = true
      · simp only [h2, ↓reduceIte]
        split
        · split
          · exact hsu
          · exact hall
        · simp only [Bool.false_eq_true, ↓reduceIte]; exact hall
      · simp only [h2, ↓reduceIte]; exact hsu

theorem openCtx_tri (th : Hdr) : Tri (openCtx th).valid ∧ (openCtx th).valid.length = th.chunks.length := by
  unfold openCtx
  refine ⟨?_, by simp⟩
  intro x hx
  simp only [List.mem_map] at hx
  obtain ⟨_, _, rfl⟩ := hx
  left; rfl

theorem writeAndVerify_tri (H : HashFn) (srcF : Bytes) (src tgtH : Hdr) (t : Tgt) (k : Nat) (sc tc : Chunk) (h : Tri t.valid) :
    Tri (writeAndVerify H srcF src tgtH t k sc tc).valid ∧ (writeAndVerify H srcF src tgtH t k sc tc).valid.length = t.valid.length := by
  unfold writeAndVerify
  simp only
  split
  · exact ⟨h, rfl⟩
  · split
    · exact ⟨tri_set _ _ _ h (Or.inr (Or.inl rfl)), by simp⟩
    · exact ⟨tri_set _ _ _ h (Or.inr (Or.inr rfl)), by simp⟩

theorem copyLoop_tri (H : HashFn) (srcF : Bytes) (src tgtH : Hdr) : ∀ (cs : List Chunk) (k : Nat) (t : Tgt), Tri t.valid →
    Tri (copyLoop H srcF src tgtH cs k t).valid ∧ (copyLoop H srcF src tgtH cs k t).valid.length = t.valid.length
  | [], _, t, h => by unfold copyLoop; exact ⟨h, rfl⟩
  | tc :: rest, k, t, h => by
    unfold copyLoop
    simp only
    have hstep : Tri (if t.valid.getD k 0 = 1 then t else
        match findSrc src tc.digest with
        | some sc => if sc.len = tc.len ∧ sc.compLen = tc.compLen then writeAndVerify H srcF src tgtH t k sc tc else t
        | none => t).valid ∧
        (if t.valid.getD k 0 = 1 then t else
        match findSrc src tc.digest with
        | some sc => if sc.len = tc.len ∧ sc.compLen = tc.compLen then writeAndVerify H srcF src tgtH t k sc tc else t
        | none => t).valid.length = t.valid.length := by
      split
      · exact ⟨h, rfl⟩
      · split
        · split
          · exact writeAndVerify_tri H srcF src tgtH t k _ tc h
          · exact ⟨h, rfl⟩
        · exact ⟨h, rfl⟩
    have ih := copyLoop_tri H srcF src tgtH rest (k + 1) _ hstep.1
    exact ⟨ih.1, ih.2.trans hstep.2⟩

theorem copyFrom_tri (H : HashFn) (A : Option Bytes) (th : Hdr) (t : Tgt) (h : Tri t.valid) :
    Tri (copyFrom H A th t).valid ∧ (copyFrom H A th t).valid.length = t.valid.length := by
  unfold copyFrom
  cases A with
  | none => exact ⟨h, rfl⟩
  | some a =>
    simp only
    cases Header.openFile H a with
    | ok ah => exact copyLoop_tri H a ah th th.chunks 0 t h
    | err => exact ⟨h, rfl⟩
    | oob _ => exact ⟨h, rfl⟩

theorem resetFailed_bin (v : List Int) (h : Tri v) (k : Nat) : (resetFailed v).getD k 0 = 0 ∨ (resetFailed v).getD k 0 = 1 := by
  unfold resetFailed
  simp only [List.getD_eq_getElem?_getD, List.getElem?_map]
  cases hk : v[k]? with
  | none => left; rfl
  | some x =>
    have hx : x ∈ v := List.mem_of_getElem? hk
    simp only [Option.map_some, Option.getD_some]
    rcases h x hx with h0 | h1 | h2
    · left; simp [h0]
    · right; simp [h1]
    · left; simp [h2]

/-- **the marks the fetch loop starts from**: after the scan, the copy from the old file and the reset of failed chunks there is
one mark per chunk, each 0 or 1 — for ANY target and old file; chunks without stored bytes are valid if the scan marked them so -/
theorem marks_of_scan (H : HashFn) (A : Option Bytes) (t2 : Bytes) (th : Hdr)
    (hzero : ∀ k c, th.chunks[k]? = some c → c.compLen = 0 →
      (validateChecksums H t2 (openCtx th)).2.valid.getD k 0 = 1) :
    Marks th (resetFailed (copyFrom H A th ⟨t2, (validateChecksums H t2 (openCtx th)).2.valid⟩).valid) := by
  have h1 := validateChecksums_tri H t2 (openCtx th) (openCtx_tri th).1
  have h2 := copyFrom_tri H A th ⟨t2, (validateChecksums H t2 (openCtx th)).2.valid⟩ h1.1
  refine ⟨?_, resetFailed_bin _ h2.1, ?_⟩
  · unfold resetFailed
    rw [List.length_map, h2.2]
    simp only
    rw [h1.2, (openCtx_tri th).2]
  · intro k c hc hz
    exact resetFailed_keeps _ k (copyFrom_keeps H A th _ k (hzero k c hc hz))

/-- **C04 (headline, soundness + completeness)**: the header of `B` is in place in the target `t2` and parses; the old file (if any)
has the same chunk checksum type; `B` has the length the header prescribes and every chunk of the index present; the scan left
something to do and marked the chunks without stored bytes valid; every response is well formed (`Honest`).  Then for ANY target
bytes behind the header, ANY old file, limit and fragment size the procedure ends WITHOUT error and leaves the target
BYTE-IDENTICAL to `B` — or two different byte strings with the same chunk checksum exist. -/
theorem update_converges (H : HashFn) (rx : Rx) (A : Option Bytes) (B : Bytes) (limit : Int) (frag : Nat) (o : Out)
    (t2 : Bytes) (th : Hdr) (hh : HdrOk H t2 th) (ho : o.err = none)
    (hA : ∀ a ah, A = some a → Header.openFile H a = .ok ah → ah.chunkHashType = th.chunkHashType)
    (hBlen : B.length = th.lead + th.headerLen + th.dataLen)
    (hBhdr : ∀ i, i < th.lead + th.headerLen → B.getD i 0 = t2.getD i 0)
    (hBok : AllPresent (envOf H rx th []) B)
    (hsc0 : (Reader.validateChecksums H t2 (Reader.openCtx th)).1 ≠ 0)
    (hsc1 : (Reader.validateChecksums H t2 (Reader.openCtx th)).1 ≠ 1)
    (hzero : ∀ k c, th.chunks[k]? = some c → c.compLen = 0 → (validateChecksums H t2 (openCtx th)).2.valid.getD k 0 = 1)
    (hon : ∀ n valid', Marks th valid' → Honest rx (n + 1) B.length (reqOf th limit valid').items) :
    let out := afterHeader H rx A B limit frag none o t2 th
    out.err = none ∧ (out.file = B ∨ Collision H th.chunkHashType) :=
  update_complete H rx A B limit frag o t2 th hh ho hA hBlen hBhdr hBok hsc0 hsc1 (marks_of_scan H A t2 th hzero) hon


/-! ### a reference implementation of the regex oracle: `Honest` is satisfiable, for every request -/

/-- after the last space of the subject: `<a>-<b>/<total>…` -/
def refPart (s : Bytes) : Nat × Nat × Nat × Nat :=
  let k := (s.reverse.takeWhile (· ≠ 32)).length
  let start := s.length - k
  let D := s.drop start
  let a := (D.takeWhile (· ≠ 45)).length
  let b := ((D.drop (a + 1)).takeWhile (· ≠ 47)).length
  (start, start + a, start + a + 1, start + a + 1 + b)

/-- a regex oracle that reads the reference server's responses -/
def refRx : Rx where
  comp := fun _ => true
  hdr := fun s => if bMP.isPrefixOf s then some (bMP.length, s.length - 2) else none
  part := fun _ s => some (refPart s)
  endm := fun _ _ => true

theorem dec_digits (n : Nat) : ∀ b ∈ dec n, 48 ≤ b.toNat ∧ b.toNat ≤ 57 := by
  intro b hb
  unfold dec at hb
  obtain ⟨c, hc, rfl⟩ := List.mem_map.mp hb
  have hd := Nat.isDigit_of_mem_toDigits (by decide) (by decide) hc
  simp only [Char.isDigit, Bool.and_eq_true, decide_eq_true_eq] at hd
  have h48 : 48 ≤ c.toNat := by
    have := hd.1
    simp only [ge_iff_le, UInt32.le_iff_toNat_le] at this
    exact this
  have h57 : c.toNat ≤ 57 := by
    have := hd.2
    simp only [UInt32.le_iff_toNat_le] at this
    exact this
  simp only [Nat.toUInt8, UInt8.toNat_ofNat']
  omega

theorem dec_ne (n : Nat) (x : UInt8) (hx : x.toNat < 48 ∨ 57 < x.toNat) : ∀ b ∈ dec n, b ≠ x := by
  intro b hb heq
  have := dec_digits n b hb
  rw [heq] at this
  omega

/-- the decimal digits fold back to the number -/
theorem parseFold_dec (n : Nat) (acc : Nat) :
    (dec n).foldl (fun a c => (a * 10 + (c.toNat + W64 - 48)) % W64) (acc % W64) =
      (Nat.ofDigitChars 10 (Nat.toDigits 10 n) acc) % W64 := by
  unfold dec
  have hdig : ∀ c ∈ Nat.toDigits 10 n, c.isDigit := fun c hc => Nat.isDigit_of_mem_toDigits (by decide) (by decide) hc
  generalize Nat.toDigits 10 n = l at hdig
  induction l generalizing acc with
  | nil => simp [Nat.ofDigitChars]
  | cons c l ih =>
    simp only [List.map_cons, List.foldl_cons, Nat.ofDigitChars_cons]
    have hc := hdig c List.mem_cons_self
    simp only [Char.isDigit, Bool.and_eq_true, decide_eq_true_eq] at hc
    have h48 : 48 ≤ c.toNat := by
      have := hc.1
      simp only [ge_iff_le, UInt32.le_iff_toNat_le] at this
      exact this
    have h57 : c.toNat ≤ 57 := by
      have := hc.2
      simp only [UInt32.le_iff_toNat_le] at this
      exact this
    have hb : c.toNat.toUInt8.toNat = c.toNat := by
      simp only [Nat.toUInt8, UInt8.toNat_ofNat']; omega
    rw [hb]
    have hstep : (acc % W64 * 10 + (c.toNat + W64 - 48)) % W64 = (10 * acc + (c.toNat - '0'.toNat)) % W64 := by
      have h0 : '0'.toNat = 48 := rfl
      rw [h0]
      have e1 : c.toNat + W64 - 48 = (c.toNat - 48) + W64 := by omega
      rw [e1, ← Nat.add_assoc, Nat.add_mod_right, Nat.add_mod, Nat.mul_mod, Nat.mod_mod, ← Nat.mul_mod, ← Nat.add_mod, Nat.mul_comm]
    rw [hstep]
    exact ih _ (fun x hx => hdig x (List.mem_cons_of_mem _ hx))

theorem parseNum_dec (pre post : Bytes) (n : Nat) :
    parseNum (pre ++ dec n ++ post) pre.length (pre.length + (dec n).length) = n % W64 := by
  unfold parseNum
  have h1 : ((pre ++ dec n ++ post).drop pre.length).take (pre.length + (dec n).length - pre.length) = dec n := by
    rw [List.append_assoc, List.drop_left]
    have : pre.length + (dec n).length - pre.length = (dec n).length := by omega
    rw [this, List.take_left]
  rw [h1]
  have := parseFold_dec n 0
  simp only [Nat.zero_mod] at this
  rw [this, Nat.ofDigitChars_ten_toDigits]

theorem takeWhile_stop {p : UInt8 → Bool} (l1 l2 : Bytes) (x : UInt8) (h1 : ∀ y ∈ l1, p y = true) (hx : p x = false) :
    (l1 ++ x :: l2).takeWhile p = l1 := by
  induction l1 with
  | nil => simp [List.takeWhile, hx]
  | cons a l ih =>
    simp only [List.cons_append, List.takeWhile_cons, h1 a List.mem_cons_self, ↓reduceIte]
    rw [ih (fun y hy => h1 y (List.mem_cons_of_mem _ hy))]

/-- what `refPart` finds in `P ␣ A - B / T` when no later space occurs and the separators are the first of their kind -/
theorem refPart_spec (P A Bd T : Bytes) (hA32 : ∀ y ∈ A, y ≠ 32) (hB32 : ∀ y ∈ Bd, y ≠ 32) (hT32 : ∀ y ∈ T, y ≠ 32)
    (hA45 : ∀ y ∈ A, y ≠ 45) (hB47 : ∀ y ∈ Bd, y ≠ 47) :
    refPart (P ++ 32 :: (A ++ 45 :: (Bd ++ 47 :: T))) =
      (P.length + 1, P.length + 1 + A.length, P.length + 1 + A.length + 1, P.length + 1 + A.length + 1 + Bd.length) := by
  let D' : Bytes := A ++ 45 :: (Bd ++ 47 :: T)
  have hD32 : ∀ y ∈ D', y ≠ 32 := by
    intro y hy
    simp only [D', List.mem_append, List.mem_cons] at hy
    rcases hy with h | h | h | h | h
    · exact hA32 y h
    · rw [h]; decide
    · exact hB32 y h
    · rw [h]; decide
    · exact hT32 y h
  have hrev : (P ++ 32 :: D').reverse = D'.reverse ++ 32 :: P.reverse := by simp
  have hk : ((P ++ 32 :: D').reverse.takeWhile (· ≠ 32)).length = D'.length := by
    rw [hrev, takeWhile_stop D'.reverse P.reverse 32 (by intro y hy; simpa using hD32 y (List.mem_reverse.mp hy)) (by simp)]
    simp
  have hlen : (P ++ 32 :: D').length - D'.length = P.length + 1 := by simp; omega
  have hdrop : (P ++ 32 :: D').drop (P.length + 1) = D' := by
    have : P ++ 32 :: D' = (P ++ [32]) ++ D' := by simp
    rw [this]
    have hl : (P ++ [32]).length = P.length + 1 := by simp
    rw [← hl, List.drop_left]
  have ha : (D'.takeWhile (· ≠ 45)).length = A.length := by
    simp only [D']
    rw [takeWhile_stop A _ 45 (by intro y hy; simpa using hA45 y hy) (by simp)]
  have hb : ((D'.drop (A.length + 1)).takeWhile (· ≠ 47)).length = Bd.length := by
    have hd : D'.drop (A.length + 1) = Bd ++ 47 :: T := by
      simp only [D']
      have : A ++ 45 :: (Bd ++ 47 :: T) = (A ++ [45]) ++ (Bd ++ 47 :: T) := by simp
      rw [this]
      have hl : (A ++ [45]).length = A.length + 1 := by simp
      rw [← hl, List.drop_left]
    rw [hd, takeWhile_stop Bd _ 47 (by intro y hy; simpa using hB47 y hy) (by simp)]
  show refPart (P ++ 32 :: D') = _
  unfold refPart
  simp only [hk, hlen, hdrop, ha, hb]

def bCR0 : Bytes := bCR.dropLast

theorem bCR_split : bCR = bCR0 ++ [32] := by decide

theorem boundary_no0 (n : Nat) : ∀ b ∈ boundary n, b ≠ 0 :=
  fun b hb => by
    have hbase : ∀ z ∈ bBase, z ≠ 0 := by decide
    rcases List.mem_append.mp hb with h | h
    · exact hbase b h
    · exact dec_ne n 0 (by decide) b h

theorem w64_val : W64 = 18446744073709551616 := by decide

/-- the reference oracle finds the range in every part header of the reference server -/
theorem refRx_finds (pp : Bytes) (n total : Nat) (r : Nat × Nat) (h1 : r.1 ≤ r.2) (h2 : r.2 + 1 < W64) :
    C05.RxFinds refRx pp (partHdr n total r) (r.2 - r.1 + 1) := by
  let P : Bytes := bDelim ++ boundary n ++ [13, 10] ++ bCT ++ [13, 10] ++ bCR0
  let T : Bytes := dec total ++ [13, 10, 13]
  have hS : partHdr n total r ++ [13, 10, 13] = P ++ 32 :: (dec r.1 ++ 45 :: (dec r.2 ++ 47 :: T)) := by
    simp only [partHdr, P, T, bCR_split, List.append_assoc, List.cons_append, List.nil_append]
  -- the C string handed to regexec
  have hno0 : ∀ y ∈ partHdr n total r ++ [13, 10, 13], (y ≠ 0) := by
    intro y hy
    rw [hS] at hy
    simp only [P, T, List.mem_append, List.mem_cons] at hy
    have hlit : ∀ (l : Bytes), (∀ z ∈ l, z ≠ 0) → y ∈ l → y ≠ 0 := fun l hl hm => hl y hm
    rcases hy with ((((((h | h) | h) | h) | h) | h) | h)
    · exact hlit bDelim (by decide) h
    · exact boundary_no0 n y h
    · rcases h with h | h | h
      · rw [h]; decide
      · rw [h]; decide
      · simp at h
    · exact hlit bCT (by decide) h
    · rcases h with h | h | h
      · rw [h]; decide
      · rw [h]; decide
      · simp at h
    · exact hlit bCR0 (by decide) h
    · rcases h with h | h | h | h | h | h
      · rw [h]; decide
      · exact dec_ne _ 0 (by decide) y h
      · rw [h]; decide
      · exact dec_ne _ 0 (by decide) y h
      · rw [h]; decide
      · rcases h with h | h
        · exact dec_ne _ 0 (by decide) y h
        · exact hlit [13, 10, 13] (by decide) (by simpa using h)
  have hcstr : cstr (partHdr n total r ++ [13, 10, 13, 0]) = partHdr n total r ++ [13, 10, 13] := by
    unfold cstr
    have : partHdr n total r ++ [13, 10, 13, 0] = (partHdr n total r ++ [13, 10, 13]) ++ 0 :: [] := by simp
    rw [this, takeWhile_stop _ [] 0 (by intro y hy; simpa using hno0 y hy) (by simp)]
  have hspec := refPart_spec P (dec r.1) (dec r.2) T (dec_ne _ 32 (by decide)) (dec_ne _ 32 (by decide))
    (by intro y hy
        simp only [T, List.mem_append] at hy
        rcases hy with h | h
        · exact dec_ne _ 32 (by decide) y h
        · revert y; decide)
    (dec_ne _ 45 (by decide)) (dec_ne _ 47 (by decide))
  unfold C05.RxFinds
  rw [hcstr, hS]
  refine ⟨P.length + 1, P.length + 1 + (dec r.1).length, P.length + 1 + (dec r.1).length + 1,
    P.length + 1 + (dec r.1).length + 1 + (dec r.2).length, ?_, by omega, ?_, by omega, ?_, ?_⟩
  · show some (refPart _) = _
    rw [hspec]
  · simp only [List.length_append, List.length_cons]; omega
  · simp only [List.length_append, List.length_cons]; omega
  · -- the two numbers
    have e1 : P ++ 32 :: (dec r.1 ++ 45 :: (dec r.2 ++ 47 :: T)) = (P ++ [32]) ++ dec r.1 ++ (45 :: (dec r.2 ++ 47 :: T)) := by simp
    have e2 : P ++ 32 :: (dec r.1 ++ 45 :: (dec r.2 ++ 47 :: T)) = (P ++ [32] ++ dec r.1 ++ [45]) ++ dec r.2 ++ (47 :: T) := by simp
    have l1 : (P ++ [32]).length = P.length + 1 := by simp
    have l2 : (P ++ [32] ++ dec r.1 ++ [45]).length = P.length + 1 + (dec r.1).length + 1 := by simp; omega
    have p1 : parseNum (P ++ 32 :: (dec r.1 ++ 45 :: (dec r.2 ++ 47 :: T))) (P.length + 1) (P.length + 1 + (dec r.1).length) = r.1 % W64 := by
      rw [e1, ← l1]; exact parseNum_dec _ _ _
    have p2 : parseNum (P ++ 32 :: (dec r.1 ++ 45 :: (dec r.2 ++ 47 :: T))) (P.length + 1 + (dec r.1).length + 1)
        (P.length + 1 + (dec r.1).length + 1 + (dec r.2).length) = r.2 % W64 := by
      rw [e2, ← l2]; exact parseNum_dec _ _ _
    have m1 : r.1 % W64 = r.1 := Nat.mod_eq_of_lt (by omega)
    have m2 : r.2 % W64 = r.2 := Nat.mod_eq_of_lt (by omega)
    rw [p1, p2, m1, m2]
    have e3 : r.2 + W64 - r.1 + 1 = (r.2 - r.1 + 1) + W64 := by omega
    rw [e3, Nat.add_mod_right]
    exact Nat.mod_eq_of_lt (by omega)

theorem cstr_append_no0 (a b : Bytes) (ha : ∀ y ∈ a, y ≠ 0) : cstr (a ++ b) = a ++ cstr b := by
  unfold cstr
  induction a with
  | nil => rfl
  | cons x a ih =>
    simp only [List.cons_append, List.takeWhile_cons]
    have hx : x ≠ 0 := ha x List.mem_cons_self
    simp only [ne_eq, hx, not_false_eq_true, decide_true, ↓reduceIte]
    rw [ih (fun y hy => ha y (List.mem_cons_of_mem _ hy))]

theorem hdr_status : refRx.hdr (cstr bStatus) = none := by decide
theorem hdr_ctline : refRx.hdr (cstr bCTline) = none := by decide
theorem hdr_crlf : refRx.hdr (cstr [13, 10]) = none := by decide

theorem hdr_range_line (X : Bytes) : refRx.hdr (cstr (bCR ++ X)) = none := by
  rw [cstr_append_no0 bCR X (by decide)]
  have : bMP.isPrefixOf (bCR ++ cstr X) = false := by
    simp [bMP, bCR, List.isPrefixOf]
  simp only [refRx, this]
  rfl

theorem hdr_length_line (X : Bytes) : refRx.hdr (cstr (bCL ++ X)) = none := by
  rw [cstr_append_no0 bCL X (by decide)]
  have : bMP.isPrefixOf (bCL ++ cstr X) = false := by
    simp [bMP, bCL, List.isPrefixOf]
  simp only [refRx, this]
  rfl

/-- the Content-Type line of a multipart response: the boundary is found -/
theorem hdr_boundary_line (n : Nat) :
    ∃ so eo, refRx.hdr (cstr (bMP ++ boundary n ++ [13, 10])) = some (so, eo) ∧ so ≤ eo ∧
      eo ≤ (cstr (bMP ++ boundary n ++ [13, 10])).length ∧ boundaryOf (cstr (bMP ++ boundary n ++ [13, 10])) so eo = boundary n := by
  have hno0 : ∀ y ∈ bMP ++ boundary n ++ [13, 10], y ≠ 0 := by
    intro y hy
    have hmp : ∀ z ∈ bMP, z ≠ 0 := by decide
    rcases List.mem_append.mp hy with h | h
    · rcases List.mem_append.mp h with h' | h'
      · exact hmp y h'
      · exact boundary_no0 n y h'
    · have : ∀ z ∈ ([13, 10] : Bytes), z ≠ 0 := by decide
      exact this y h
  have hc : cstr (bMP ++ boundary n ++ [13, 10]) = bMP ++ boundary n ++ [13, 10] := by
    have := cstr_append_no0 (bMP ++ boundary n ++ [13, 10]) [] hno0
    simpa [cstr] using this
  rw [hc]
  have hpre : bMP.isPrefixOf (bMP ++ boundary n ++ [13, 10]) = true := by
    rw [List.isPrefixOf_iff_prefix, List.append_assoc]
    exact List.prefix_append _ _
  have hbl : 0 < (boundary n).length := by simp [boundary, bBase]
  refine ⟨bMP.length, (bMP ++ boundary n ++ [13, 10]).length - 2, ?_, ?_, ?_, ?_⟩
  · simp only [refRx, hpre, ↓reduceIte]
  · simp only [List.length_append, List.length_cons, List.length_nil]; omega
  · omega
  · unfold boundaryOf
    have hlen : (bMP ++ boundary n ++ [13, 10]).length - 2 - bMP.length = (boundary n).length := by
      simp only [List.length_append, List.length_cons, List.length_nil]; omega
    have hfirst : (bMP ++ boundary n ++ [13, 10]).getD bMP.length 0 = 51 := by
      rw [List.append_assoc, List.getD_eq_getElem?_getD, List.getElem?_append_right (Nat.le_refl _)]
      simp [boundary, bBase]
    simp only [hlen, hfirst]
    rw [if_neg (by intro h; exact absurd h.1 (by decide))]
    rw [List.append_assoc, List.drop_left, List.take_left]

/-- **`Honest` is satisfiable — by one oracle, for every transfer number, file length and request** -/
theorem refRx_honest (n total : Nat) (items : List (Nat × Nat)) : Honest refRx n total items where
  comp := rfl
  single := by
    intro r _ l hl
    simp only [singleLines, List.mem_cons, List.mem_nil_iff, or_false] at hl
    rcases hl with rfl | rfl | rfl | rfl
    · exact hdr_status
    · exact hdr_ctline
    · simp only [List.append_assoc]; exact hdr_range_line _
    · exact hdr_crlf
  multi := by
    intro _ len l0 l1 l2 l3 hl
    simp only [mpLines, List.cons.injEq, and_true] at hl
    obtain ⟨rfl, rfl, rfl, rfl⟩ := hl
    refine ⟨?_, hdr_boundary_line n⟩
    intro l hl
    simp only [List.mem_cons, List.mem_nil_iff, or_false] at hl
    rcases hl with rfl | rfl | rfl
    · exact hdr_status
    · simp only [List.append_assoc]; exact hdr_length_line _
    · exact hdr_crlf
  compP := rfl
  compE := rfl
  parts := fun r _ h1 h2 => refRx_finds _ n total r h1 h2

/-- **C04 with the reference oracle (no hypothesis about regular expressions left)**: with `refRx` in the place of glibc's
regex functions the procedure ends WITHOUT error and leaves the target BYTE-IDENTICAL to the server's file `B` (or a collision
is exhibited) — for ANY target bytes behind the header, old file, limit and fragment size.  The hypotheses are about the files
only: the header of `B` is in place and parses, the old file has the same chunk checksum type, `B` has the prescribed length
and every chunk of the index present, the scan left something to do and marked the chunks without stored bytes valid. -/
theorem update_converges_ref (H : HashFn) (A : Option Bytes) (B : Bytes) (limit : Int) (frag : Nat) (o : Out)
    (t2 : Bytes) (th : Hdr) (hh : HdrOk H t2 th) (ho : o.err = none)
    (hA : ∀ a ah, A = some a → Header.openFile H a = .ok ah → ah.chunkHashType = th.chunkHashType)
    (hBlen : B.length = th.lead + th.headerLen + th.dataLen)
    (hBhdr : ∀ i, i < th.lead + th.headerLen → B.getD i 0 = t2.getD i 0)
    (hBok : AllPresent (envOf H refRx th []) B)
    (hsc0 : (Reader.validateChecksums H t2 (Reader.openCtx th)).1 ≠ 0)
    (hsc1 : (Reader.validateChecksums H t2 (Reader.openCtx th)).1 ≠ 1)
    (hzero : ∀ k c, th.chunks[k]? = some c → c.compLen = 0 → (validateChecksums H t2 (openCtx th)).2.valid.getD k 0 = 1) :
    let out := afterHeader H refRx A B limit frag none o t2 th
    out.err = none ∧ (out.file = B ∨ Collision H th.chunkHashType) :=
  update_converges H refRx A B limit frag o t2 th hh ho hA hBlen hBhdr hBok hsc0 hsc1 hzero
    (fun n valid' _ => refRx_honest (n + 1) B.length _)

end Zck.C04
