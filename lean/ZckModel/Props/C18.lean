/-
C18 — Checksum backends are interchangeable: the bundled streaming code computes the standard
(FIPS 180-4) digest for every message and every way of splitting it into update calls.
Property theorems only (helper lemmas live in ZckModel/Sha/Lemmas.lean).
-/
import ZckModel.Sha.Lemmas
import ZckModel.Sha.Lemmas1
import ZckModel.Pred.C18

namespace Zck.C18
open Zck Zck.Sha

/-- **streaming = specification** (generic in the compression function): feeding a message to
`update` in ANY segmentation and calling `final` gives the specified digest, as long as the bit
count fits the C counters (`W`, generated from the source). -/
theorem stream_eq_spec (A : Algo) (W : Widths) (segs : List Bytes)
    (hlb : 1 + A.lb ≤ A.bs) (hfb : W.fieldBytes ≤ A.lb)
    (h1 : 8 * segs.flatten.length < 2 ^ W.totBits) (h2 : 8 * segs.flatten.length < 2 ^ W.lenbBits)
    (h3 : 8 * segs.flatten.length < 256 ^ W.fieldBytes) :
    stream A W segs = hash A segs.flatten := by
  unfold stream
  have hg := good_foldl A W segs (Ctx.init A) [] (good_init A W)
  simp only [List.nil_append] at hg
  exact final_spec A W _ _ hg hlb hfb h1 h2 h3

/-- the integer widths found in /repo's bundled SHA-2 code on this run: 64-bit byte counter,
64-bit bit count, written as an 8-byte big-endian field.  (With the 32-bit `unsigned int`
counters the code had before the fix this obligation fails.) -/
theorem widths_are_64 : w256 = ⟨64, 64, 8⟩ ∧ w512 = ⟨64, 64, 8⟩ := ⟨rfl, rfl⟩

/-- the generated tables and initial values are the FIPS 180-4 constants, and the block sizes
are the standard ones (an edited table or constant breaks this obligation) -/
theorem gen_constants_ok :
    Zck.Gen.SHA256_K = k256 ∧ Zck.Gen.SHA256_H0 = iv256 ∧
    Zck.Gen.SHA512_K = k512 ∧ Zck.Gen.SHA512_H0 = iv512 ∧
    Zck.Gen.SHA1_H0 = iv1 ∧ Zck.Gen.SHA1_K = k1 ∧
    Zck.Gen.SHA256_BLOCK = sha256A.bs ∧ Zck.Gen.SHA512_BLOCK = sha512A.bs := by decide

/-- **C18, SHA-256**: bundled streaming SHA-256 = FIPS SHA-256 for every message shorter than
2^61 bytes (the whole domain on which SHA-256 is defined) and every segmentation. -/
theorem bundled_sha256 (segs : List Bytes) (h : segs.flatten.length < 2 ^ 61) :
    bundledHash 1 segs = zckHash 1 segs.flatten := by
  simp only [bundledHash, zckHash]
  rw [widths_are_64.1]
  rw [stream_eq_spec sha256A ⟨64, 64, 8⟩ segs (by decide) (by decide) (by show 8 * _ < 2 ^ 64; omega)
    (by show 8 * _ < 2 ^ 64; omega) (by show 8 * _ < 256 ^ 8; omega)]

/-- **C18, SHA-512 and SHA-512/128** (the latter is the first 16 bytes): for every message
shorter than 2^61 bytes — more than a `size_t` file can hold. -/
theorem bundled_sha512 (segs : List Bytes) (h : segs.flatten.length < 2 ^ 61) :
    bundledHash 2 segs = zckHash 2 segs.flatten ∧ bundledHash 3 segs = zckHash 3 segs.flatten := by
  simp only [bundledHash, zckHash]
  rw [widths_are_64.2]
  rw [stream_eq_spec sha512A ⟨64, 64, 8⟩ segs (by decide) (by decide) (by show 8 * _ < 2 ^ 64; omega)
    (by show 8 * _ < 2 ^ 64; omega) (by show 8 * _ < 256 ^ 8; omega)]
  exact ⟨rfl, rfl⟩

/-- **C18, SHA-1**: the bundled `SHA1_Update` / `SHA1_Final` (padding fed through update byte by byte, 61-bit byte counter) =
FIPS SHA-1 for every message shorter than 2^61 bytes and every segmentation. -/
theorem bundled_sha1 (segs : List Bytes) (h : segs.flatten.length < 2 ^ 61) :
    bundledHash 0 segs = zckHash 0 segs.flatten := by
  simp only [bundledHash, zckHash]
  rw [stream1_eq_spec segs h]

/-- **split independence** (corollary): two segmentations of the same message give the same digest -/
theorem split_indep (t : Nat) (ht : t = 0 ∨ t = 1 ∨ t = 2 ∨ t = 3) (s1 s2 : List Bytes)
    (hj : s1.flatten = s2.flatten) (h : s1.flatten.length < 2 ^ 61) :
    bundledHash t s1 = bundledHash t s2 := by
  rcases ht with rfl | rfl | rfl | rfl
  · rw [bundled_sha1 s1 h, bundled_sha1 s2 (hj ▸ h), hj]
  · rw [bundled_sha256 s1 h, bundled_sha256 s2 (hj ▸ h), hj]
  · rw [(bundled_sha512 s1 h).1, (bundled_sha512 s2 (hj ▸ h)).1, hj]
  · rw [(bundled_sha512 s1 h).2, (bundled_sha512 s2 (hj ▸ h)).2, hj]

/-- SHA-512/128 is the first 16 bytes of SHA-512 -/
theorem sha512_128 (m : Bytes) : zckHash 3 m = (zckHash 2 m).map (·.take 16) := rfl

/-- the predicate the driver evaluates holds of the bundled model's output -/
theorem c18_model_ok (t : Nat) (ht : t = 0 ∨ t = 1 ∨ t = 2 ∨ t = 3) (segs : List Bytes)
    (h : segs.flatten.length < 2 ^ 61) (d : Bytes) (hd : bundledHash t segs = some d) :
    c18_ok t segs d = true := by
  unfold c18_ok
  rcases ht with rfl | rfl | rfl | rfl
  · rw [← bundled_sha1 segs h, hd]; simp
  · rw [← bundled_sha256 segs h, hd]; simp
  · rw [← (bundled_sha512 segs h).1, hd]; simp
  · rw [← (bundled_sha512 segs h).2, hd]; simp

/-! Non-vacuity (tests): hypotheses are met by concrete segmentations. -/
example : ([[1, 2], [], [3]] : List Bytes).flatten.length < 2 ^ 61 := by decide

end Zck.C18
