/-
C02 / C18 — the concrete checksum functions return digests of the sizes the format gives for their types (`zckHash_len`), so the
hypothesis `HashLen` of `Props/C02Decode.lean` / `Props/C01Written.lean` is discharged for the model's own SHA-1 / SHA-256 / SHA-512 /
SHA-512-128, and `open_read_decodes` holds for them without it (`open_read_decodes_sha`).
-/
import ZckModel.Sha.Spec
import ZckModel.Props.C02Full
namespace Zck.Sha
open Zck Zck.Format

theorem comp256_size (h : Array UInt32) (blk : Bytes) : (comp256 h blk).size = 8 := by
  unfold comp256
  simp only [Id.run, bind, pure]
  rfl

theorem comp512_size (h : Array UInt64) (blk : Bytes) : (comp512 h blk).size = 8 := by
  unfold comp512
  simp only [Id.run, bind, pure]
  rfl

theorem comp1_size (h : Array UInt32) (blk : Bytes) : (comp1 h blk).size = 5 := by
  unfold comp1
  simp only [Id.run, bind, pure]
  rfl

theorem flatMap32_len : ∀ l : List UInt32, (l.flatMap unpack32).length = 4 * l.length
  | [] => rfl
  | x :: xs => by simp [List.flatMap_cons, unpack32, flatMap32_len xs]; omega

theorem flatMap64_len : ∀ l : List UInt64, (l.flatMap unpack64).length = 8 * l.length
  | [] => rfl
  | x :: xs => by simp [List.flatMap_cons, unpack64, flatMap64_len xs]; omega

theorem foldBlocks_inv (A : Algo) (P : A.St → Prop) (hc : ∀ s b, P s → P (A.comp s b)) :
    ∀ (n : Nat) (s : A.St) (bytes : Bytes), P s → P (foldBlocks A s bytes n)
  | 0, s, _, h => by simpa [foldBlocks] using h
  | n + 1, s, bytes, h => by
    simp only [foldBlocks]
    exact foldBlocks_inv A P hc n _ _ (hc s _ h)

theorem out256_len (s : Array UInt32) (h : s.size = 8) : (sha256A.out s).length = 32 := by
  show (s.toList.flatMap unpack32).length = 32
  rw [flatMap32_len, Array.length_toList, h]

theorem out512_len (s : Array UInt64) (h : s.size = 8) : (sha512A.out s).length = 64 := by
  show (s.toList.flatMap unpack64).length = 64
  rw [flatMap64_len, Array.length_toList, h]

theorem out1_len (s : Array UInt32) (h : s.size = 5) : (sha1A.out s).length = 20 := by
  show (s.toList.flatMap unpack32).length = 20
  rw [flatMap32_len, Array.length_toList, h]

theorem hash256_len (m : Bytes) : (hash sha256A m).length = 32 := by
  unfold hash
  exact out256_len _ (foldBlocks_inv sha256A (fun s => Array.size (α := UInt32) s = 8) (fun s b _ => comp256_size s b) _ _ _ (by decide))

theorem hash512_len (m : Bytes) : (hash sha512A m).length = 64 := by
  unfold hash
  exact out512_len _ (foldBlocks_inv sha512A (fun s => Array.size (α := UInt64) s = 8) (fun s b _ => comp512_size s b) _ _ _ (by decide))

theorem hash1_len (m : Bytes) : (hash sha1A m).length = 20 := by
  unfold hash
  exact out1_len _ (foldBlocks_inv sha1A (fun s => Array.size (α := UInt32) s = 5) (fun s b _ => comp1_size s b) _ _ _ (by decide))

/-- the digests of the concrete hash functions have the sizes the format gives for their types -/
theorem zckHash_len : Stream.HashLen zckHash := by
  intro t bs d h
  unfold zckHash at h
  split at h
  · simp only [Option.some.injEq] at h; subst h; simp [hsize, hash1_len]
  · simp only [Option.some.injEq] at h; subst h; simp [hsize, hash256_len]
  · simp only [Option.some.injEq] at h; subst h; simp [hsize, hash512_len]
  · simp only [Option.some.injEq] at h; subst h; simp [hsize, hash512_len]
  · cases h

end Zck.Sha

namespace Zck.Stream
open Zck Zck.Format Zck.Reader

/-- `open_read_decodes` for the model's own checksum functions -/
theorem open_read_decodes_sha (D : Decomp) (f : Bytes) (h : Hdr) (hsmall : f.length < 2^63)
    (hopen : Header.openFile Sha.zckHash f = .ok h)
    (hdz : ∀ d, h.chunks.head? = some d → d.compLen = 0 → d.len = 0 → (hsize h.chunkHashType).map zeros = some d.digest)
    (hlz : ∀ c ∈ h.chunks, c.len = 0 → c.compLen = 0)
    (init : List Nat) (nl : Nat)
    (hall : ∀ r ∈ (reads Sha.zckHash D f (openCtx h) init).1, 0 ≤ r.ret)
    (hlast : 0 ≤ (compRead Sha.zckHash D f (reads Sha.zckHash D f (openCtx h) init).2 nl).1.ret)
    (hshort : (compRead Sha.zckHash D f (reads Sha.zckHash D f (openCtx h) init).2 nl).1.ret < nl)
    (hclose : close Sha.zckHash (compRead Sha.zckHash D f (reads Sha.zckHash D f (openCtx h) init).2 nl).2 = true) :
    decodeAny Sha.zckHash D f =
      some (outOf (reads Sha.zckHash D f (openCtx h) init).1 ++
        (compRead Sha.zckHash D f (reads Sha.zckHash D f (openCtx h) init).2 nl).1.bytes) :=
  open_read_decodes Sha.zckHash D f h Sha.zckHash_len hsmall hopen hdz hlz init nl hall hlast hshort hclose

end Zck.Stream
