import ZckModel.Reader
import ZckModel.Pred.Read
namespace Zck.C09
end Zck.C09
