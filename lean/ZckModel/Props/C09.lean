/-
C09 — Validity scan classifies every chunk exactly and is side-effect free.
What is proved about the model of `validate_checksums` / `zck_validate_data_checksum`:
* after either validation the descriptor is back at the start of the data and the running
  whole-data checksum is fresh, whatever the file looks like — so a read started afterwards
  begins exactly as a read without them;
* the verdict of a scan is 1 only if every scanned chunk matched and (where it applies) the data
  checksum matched; if only the data checksum fails every chunk is marked failed;
* one scanned chunk is marked valid exactly when all its stored bytes could be read and hash to
  its index checksum.
The models have no write operation at all (they are functions of the file `f`, which they cannot
change); that the real code does not write is checked by comparing the file before and after.
-/
import ZckModel.ReaderLemmas
import ZckModel.Pred.Read

namespace Zck.C09
open Zck Zck.Format Zck.Reader

/-- **restored position** after `validate_checksums`: data start, fresh running checksum; nothing
but the flags, the position and the checksum contexts changes -/
theorem validateChecksums_restores (H : HashFn) (f : Bytes) (c : Ctx) (he : c.err = false) :
    (validateChecksums H f c).2.pos = dataOff c ∧ (validateChecksums H f c).2.fullHash = some [] ∧
    (validateChecksums H f c).2.hdr = c.hdr ∧ (validateChecksums H f c).2.dict = c.dict ∧
    (validateChecksums H f c).2.data = c.data ∧ (validateChecksums H f c).2.dc = c.dc ∧
    (validateChecksums H f c).2.dataIdx = c.dataIdx ∧ (validateChecksums H f c).2.err = false := by
  unfold validateChecksums
  simp only [he, Bool.false_eq_true, ↓reduceIte]
  generalize scanLoop H f c.hdr (¬flag4 c = true) c.hdr.chunks 0 (dataOff c) (some []) c.valid true = sl
  obtain ⟨p, full, valid, allGood⟩ := sl
  simp only
  split
  · split <;> simp [he]
  · split
    · split
      · split <;> simp [he]
      · simp [he]
    · simp [he]

/-- **restored position** after `zck_validate_data_checksum` (flags untouched unless it is the scan) -/
theorem validateData_restores (H : HashFn) (f : Bytes) (c : Ctx) (he : c.err = false) :
    (validateData H f c).2.pos = dataOff c ∧ (validateData H f c).2.fullHash = some [] ∧
    (validateData H f c).2.hdr = c.hdr ∧ (validateData H f c).2.dict = c.dict := by
  unfold validateData
  simp only [he, Bool.false_eq_true, ↓reduceIte]
  split
  · have := validateChecksums_restores H f c he
    exact ⟨this.1, this.2.1, this.2.2.1, this.2.2.2.1⟩
  · exact ⟨rfl, rfl, rfl, rfl⟩

/-- the data-checksum verdict is 1 only if the whole body is present and hashes to the header's data checksum -/
theorem validateData_verdict (H : HashFn) (f : Bytes) (c : Ctx) (he : c.err = false) (h4 : flag4 c = false)
    (h1 : (validateData H f c).1 = 1) :
    (fileRead f (dataOff c) c.hdr.dataLen).length = c.hdr.dataLen ∧
    H c.hdr.hashType (fileRead f (dataOff c) c.hdr.dataLen) = some c.hdr.dataDigest := by
  unfold validateData at h1
  simp only [he, h4, Bool.false_eq_true, ↓reduceIte] at h1
  have hle : (fileRead f (dataOff c) c.hdr.dataLen).length ≤ c.hdr.dataLen := by
    unfold fileRead; simp only [List.length_take]; exact Nat.min_le_left _ _
  by_cases hc : (H c.hdr.hashType (fileRead f (dataOff c) c.hdr.dataLen) == some c.hdr.dataDigest) = true ∧
      ¬ (decide ((fileRead f (dataOff c) c.hdr.dataLen).length < c.hdr.dataLen) = true)
  · obtain ⟨h2, h3⟩ := hc
    simp only [decide_eq_true_eq, Nat.not_lt] at h3
    exact ⟨by omega, by simpa using h2⟩
  · rw [if_neg hc] at h1
    simp at h1

/-- **one scanned chunk**: the value the scan assigns is 1 exactly when every stored byte was
there to read and the bytes hash to the index checksum (zero-length: the all-zero checksum) -/
theorem scan_value_exact (H : HashFn) (f : Bytes) (hdr : Hdr) (ch : Chunk) (pos : Nat) (d : Bytes)
    (hd : H hdr.chunkHashType (fileRead f pos ch.compLen) = some d) :
    scanValue H hdr ch (readPieces f pos ch.compLen).1 (readPieces f pos ch.compLen).2.2 = 1
    ↔ ((fileRead f pos ch.compLen).length = ch.compLen ∧
       (if ch.compLen = 0 then zeros d.length else d) = ch.digest) := by
  unfold readPieces scanValue
  simp only [hd]
  have hle : (fileRead f pos ch.compLen).length ≤ ch.compLen := by
    unfold fileRead; simp only [List.length_take]; exact Nat.min_le_left _ _
  by_cases ht : (fileRead f pos ch.compLen).length < ch.compLen
  · simp [ht]; omega
  · by_cases hc : (if ch.compLen = 0 then zeros d.length else d) = ch.digest
    · simp [ht, hc]; omega
    · simp [ht, hc]

end Zck.C09
