/-
C01 — the tools, end to end on the models: `zck` (scanner → chunker → `zck_close`) followed by `unzck` (open, validations, the
read loop with a fixed buffer, `zck_close`) gives back the input file, for every input, split string, read-block cutting,
legal configuration, buffer size and backend whose decompressor inverts its compressor.  New here: `P_len` (what has been handed
out never exceeds the content), `unzckLoop_total` (the loop ends after at most content-length + 1 reads, having collected exactly
the content, and `zck_close` succeeds), `zck_unzck_roundtrip` (the composition with `Props/C01Scanner.lean`,
`Props/C16Term.lean`, `Props/C01Close.lean`, `Props/C09Reads.lean`).  Not modelled: option parsing, file names, `write(2)` of the
output (C12 covers its failure reporting).
-/
import ZckModel.Props.C01Scanner
import ZckModel.Props.C01Close
import ZckModel.Props.C09Reads
import ZckModel.Props.C14Exact

namespace Zck.Stream
open Zck Zck.Format Zck.Reader

section
variable {H : HashFn} {D : Decomp} {f : Bytes} {h : Hdr}

/-- what has been handed out never exceeds the content -/
theorem P_len (wf : WF H D f h) {T : Bytes} {c : Ctx} (hp : P (H := H) (D := D) (f := f) (h := h) T c) :
    T.length ≤ (doneFrom D f h 1 (h.chunks.drop 1)).length := by
  rcases hp with ⟨ht, _, _⟩ | ⟨dv, sk, s, _, hside⟩
  · rw [ht]; exact Nat.zero_le _
  · obtain ⟨rest, hrest⟩ := SI.prefix s
    have hlen : sk.length + T.length ≤ (done D f h h.chunks.length).length := by
      rw [← hrest]; simp
    cases hc : h.chunks with
    | nil =>
      have : done D f h h.chunks.length = [] := by simp [done, hc, doneFrom]
      rw [this] at hlen
      simp at hlen
      rw [hlen.2]; exact Nat.zero_le _
    | cons d cs =>
      have hd : h.chunks.head? = some d := by rw [hc]; rfl
      have hdone : done D f h h.chunks.length = contrib D f h 0 d ++ doneFrom D f h 1 cs := by
        unfold done
        rw [List.take_length, hc]
        rfl
      have hneed : Need H D f h 0 d := wf.needs 0 d (by rw [hc]; simp) (by rw [hc]; rfl)
      have hcl := contrib_len_of_need (H := H) 0 d hneed
      obtain ⟨s0, s1⟩ := hside d hd
      rw [hdone] at hlen
      simp only [List.length_append, List.drop_succ_cons, List.drop_zero] at hlen ⊢
      by_cases hz : d.len = 0
      · have := s0 hz
        rw [this] at hlen
        simp at hlen
        omega
      · obtain ⟨a, b⟩ := s1 (by omega)
        have := b hneed
        omega


/-- `unzck`'s loop: `zck_read` with a fixed buffer until it returns 0; `none` = a read failed or the fuel ran out -/
def unzckLoop (H : HashFn) (D : Decomp) (f : Bytes) (n : Nat) : Nat → Ctx → Bytes → Option (Bytes × Ctx)
  | 0, _, _ => none
  | fuel + 1, c, acc =>
    if (compRead H D f c n).1.ret < 0 then none
    else if (compRead H D f c n).1.ret = 0 then some (acc, (compRead H D f c n).2)
    else unzckLoop H D f n fuel (compRead H D f c n).2 (acc ++ (compRead H D f c n).1.bytes)

/-- on a well-formed file the loop ends after at most `content length + 1` reads, has collected exactly the content, and
`zck_close` succeeds -/
theorem unzckLoop_total (wf : WF H D f h) (n : Nat) (hn : 0 < n) : ∀ (fuel : Nat) (c : Ctx) (acc : Bytes),
    P (H := H) (D := D) (f := f) (h := h) acc c →
    (doneFrom D f h 1 (h.chunks.drop 1)).length - acc.length + 1 ≤ fuel →
    ∃ cE, unzckLoop H D f n fuel c acc = some (doneFrom D f h 1 (h.chunks.drop 1), cE) ∧ close H cE = true
  | 0, _, _, _, hf => by omega
  | fuel + 1, c, acc, hp, hf => by
    have hg := compRead_prog wf acc c n hp
    have hr := compRead_P (H := H) wf.run acc c n hp
    unfold unzckLoop
    rcases hr with hneg | ⟨hret, hp2, hsh⟩
    · have := hg.1; omega
    · rw [if_neg (by have := hg.1; omega)]
      by_cases h0 : (compRead H D f c n).1.ret = 0
      · rw [if_pos h0]
        have hb0 : (compRead H D f c n).1.bytes.length = 0 := by rw [h0] at hret; exact_mod_cast hret.symm
        have hbn : (compRead H D f c n).1.bytes = [] := List.eq_nil_of_length_eq_zero hb0
        obtain ⟨hpost, hdc, hend⟩ := hsh (by omega)
        have hdec := (post_end hpost hdc hend).1.content
        rw [hbn, List.append_nil] at hdec hpost
        exact ⟨_, by rw [hdec], close_at_end wf hpost hend⟩
      · rw [if_neg h0]
        have hpos : 1 ≤ (compRead H D f c n).1.bytes.length := by
          have : (0 : Int) < (compRead H D f c n).1.ret := by have := hg.1; omega
          rw [hret] at this
          exact_mod_cast this
        have hl := P_len wf hp2
        rw [List.length_append] at hl
        exact unzckLoop_total wf n hn fuel _ _ hp2 (by rw [List.length_append]; omega)

end
end Zck.Stream

namespace Zck.ToolsP
open Zck Zck.Format Zck.Reader Zck.Encode Zck.Header Zck.Stream Zck.Writer Zck.Tools Zck.EncP

/-- **C01, the tools end to end.**  `zck -s split` on an input delivered in `blocks`, under any legal configuration: the calls
complete with some chunks; for the file `zck_close` writes for them (any backend whose decompressor inverts its compressor) the
parser model opens it and `unzck`'s loop — after any validations, with any buffer size — collects exactly the input within
input-length + 1 reads, and `zck_close` succeeds. -/
theorem zck_unzck_roundtrip (H : Format.HashFn) (D : Decomp) (cfg : Cfg) (hl : Legal cfg.norm) (hW : cfg.W = 48) (hb : cfg.bits = 15)
    (split : Bytes) (blocks : List Bytes)
    (C : Option Bytes → Bytes → Bytes) (ht cht ct ds cs : Nat) (u : Bool) (dict : Bytes)
    (hct : ct = 0 ∨ ct = 2) (hC : ct ≠ 0 → ∀ d p, p ≠ [] → D (C d p) d = some p ∧ C d p ≠ [])
    (hds : hsize ht = some ds) (hcs : hsize cht = some cs) (hH : HashLen H) :
    ∃ chunks, closeChunks cfg (zckOps split blocks) = some chunks ∧
      ∀ f, closeFile H C ht cht ct u dict chunks = some f →
        (∀ p ∈ dict :: chunks, p.length < allocLimit) → f.length < 2^63 →
        (∀ ents dd, (storedPairs C ct dict chunks).mapM (fun (x : Bytes × Bytes × Bytes) => entryOf H cht u x.1 x.2.1 x.2.2) = some ents →
          (encIndex ⟨ht, cht, if u then 4 else 0, ct, dd, ents⟩).length < 2^31) →
        ∃ h, openFile H f = .ok h ∧
          ∀ (vs : List Val) (n : Nat), 0 < n →
            ∃ cE, unzckLoop H D f n (blocks.flatten.length + 1) (validations H f (openCtx h) vs) [] = some (blocks.flatten, cE) ∧
              close H cE = true := by
  obtain ⟨chunks, hclose, hflat⟩ := zck_tool_chunks cfg hl hW hb split blocks
  refine ⟨chunks, hclose, fun f hf hsmall hlen hidx => ?_⟩
  have hne := Writer.closeChunks_nonempty cfg _ chunks hclose
  obtain ⟨h, hopen, wf, hc⟩ := closeFile_wf H D C ht cht ct ds cs u dict chunks f hf hct hC hds hcs hH hne hsmall hlen hidx
  refine ⟨h, hopen, fun vs n hn => ?_⟩
  have hp : P (H := H) (D := D) (f := f) (h := h) [] (validations H f (openCtx h) vs) :=
    fresh_P (validations_fresh vs _ fresh_open)
  have := unzckLoop_total wf n hn (blocks.flatten.length + 1) _ [] hp (by rw [hc, hflat]; simp)
  rw [hc, hflat] at this
  exact this

/-! non-vacuity (test): the hypotheses are met by the default configuration, the "none" backend and the example checksum
function; for the input `[1,2,3] ++ [9,8]` read in two blocks the chunker model closes the single chunk `[1,2,3,9,8]` -/
example : ∃ chunks, closeChunks { manual := false, chunkMin := 0, chunkMax := 0 } (zckOps [] [[1, 2, 3], [9, 8]]) = some chunks := by
  obtain ⟨chunks, h, _⟩ := zck_unzck_roundtrip exH exD { manual := false, chunkMin := 0, chunkMax := 0 } ⟨by decide, by decide⟩ rfl rfl [] [[1, 2, 3], [9, 8]]
    (fun _ p => p) 3 3 0 16 16 false [] (Or.inl rfl) (fun h => absurd rfl h) rfl rfl exH_len
  exact ⟨chunks, h⟩

example : closeChunks { manual := false, chunkMin := 0, chunkMax := 0 } (zckOps [] [[1, 2, 3], [9, 8]]) = some [[1, 2, 3, 9, 8]] := by
  decide +kernel

end Zck.ToolsP
