import ZckModel.Writer
import ZckModel.Pred.Write
namespace Zck.C16
end Zck.C16
