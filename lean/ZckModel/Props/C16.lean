/-
C16 — Chunking is deterministic, content-defined and local.
Theorems about the chunker model (`Writer.lean`: automatic branch of `zck_write` with the buzhash
state, `zck_end_chunk`), for EVERY configuration, content and segmentation.  The model is a
function (no clock, pid or temp-file name can reach the output): determinism is by construction.
That the real `zck_write`'s batching (`comp_write` of whole runs) is equivalent to this per-byte
model is what the correspondence runs check (same content, different segmentations ⇒ identical
files; chunk sizes = the model's).
-/
import ZckModel.WriterLemmas
import ZckModel.Pred.Write

namespace Zck.C16
open Zck Zck.Writer

/-- **segmentation independence (automatic mode)**: delivering content through any sequence of
write calls is the same as one write of the concatenation — same finished chunks, same chunk
under construction, same rolling-hash state -/
theorem segmentation_indep (cfg : Cfg) (hm : cfg.manual = false) :
    ∀ (segs : List Bytes) (st : St), run cfg st (segs.map Op.write) = writeAuto cfg st segs.flatten
  | [], st => by simp [run, writeAuto]
  | s :: segs, st => by
    simp only [List.map_cons, run, List.flatten_cons, writeAuto_append]
    have h1 : applyOp cfg st (Op.write s) = writeAuto cfg st s := by
      unfold applyOp
      by_cases he : s.isEmpty = true
      · have : s = [] := by simpa using he
        subst this; simp [writeAuto]
      · simp [he, hm]
    rw [h1]
    cases writeAuto cfg st s with
    | none => rfl
    | some st' => exact segmentation_indep cfg hm segs st'

/-- two segmentations of the same content produce the same chunks -/
theorem same_content_same_chunks (cfg : Cfg) (hm : cfg.manual = false) (s1 s2 : List Bytes)
    (h : s1.flatten = s2.flatten) :
    closeChunks cfg (s1.map Op.write) = closeChunks cfg (s2.map Op.write) := by
  unfold closeChunks
  have hm' : cfg.norm.manual = false := hm
  rw [segmentation_indep cfg.norm hm', segmentation_indep cfg.norm hm', h]

/-- **prefix locality**: the chunks finished while the shared prefix `p` is being written are
finished chunks of the whole output, whatever follows — and they account for all of `p` except
the chunk still under construction at its end.  A chunk is finished when the byte FOLLOWING it is
examined, so these are exactly the chunks that end strictly before the first differing byte. -/
theorem prefix_local (cfg : Cfg) (p x : Bytes) (sp sx : St)
    (hp : writeAuto cfg {} p = some sp) (hx : writeAuto cfg {} (p ++ x) = some sx) :
    (∃ more, sx.chunks = sp.chunks ++ more) ∧ sp.chunks.flatten ++ sp.cur = p := by
  rw [writeAuto_append, hp] at hx
  simp only [Option.bind_some] at hx
  rw [writeAuto_acc] at hx
  refine ⟨?_, ?_⟩
  · cases h : writeAuto cfg { sp with chunks := [] } x with
    | none => rw [h] at hx; cases hx
    | some t =>
      rw [h] at hx
      simp only [Option.map_some, Option.some.injEq] at hx
      exact ⟨t.chunks, by rw [← hx]⟩
  · have := (writeAuto_content cfg p {} sp wf_init hp).1
    simpa [content, St.cur] using this

/-- two outputs that share the prefix `p` agree on every chunk finished within `p` -/
theorem shared_prefix_chunks (cfg : Cfg) (p x y : Bytes) (sp sx sy : St)
    (hp : writeAuto cfg {} p = some sp) (hx : writeAuto cfg {} (p ++ x) = some sx)
    (hy : writeAuto cfg {} (p ++ y) = some sy) :
    ∃ mx my, sx.chunks = sp.chunks ++ mx ∧ sy.chunks = sp.chunks ++ my :=
  let ⟨⟨mx, h1⟩, _⟩ := prefix_local cfg p x sp sx hp hx
  let ⟨⟨my, h2⟩, _⟩ := prefix_local cfg p y sp sy hp hy
  ⟨mx, my, h1, h2⟩

/-- **suffix resynchronisation**: two writers whose chunk under construction and rolling-hash
state agree (in particular: both at the start of a chunk) finish exactly the same further chunks
on the same further bytes, whatever they produced before -/
theorem suffix_resync (cfg : Cfg) (s : Bytes) (st1 st2 a b : St)
    (hcore : st1.curR = st2.curR ∧ st1.curLen = st2.curLen ∧ st1.buz = st2.buz)
    (h1 : writeAuto cfg st1 s = some a) (h2 : writeAuto cfg st2 s = some b) :
    ∃ m, a.chunks = st1.chunks ++ m ∧ b.chunks = st2.chunks ++ m ∧
      a.curR = b.curR ∧ a.curLen = b.curLen ∧ a.buz = b.buz := by
  rw [writeAuto_acc] at h1 h2
  have hc : ({ st1 with chunks := [] } : St) = { st2 with chunks := [] } := by
    obtain ⟨e1, e2, e3⟩ := hcore
    cases st1; cases st2; simp_all
  rw [hc] at h1
  cases h : writeAuto cfg { st2 with chunks := [] } s with
  | none => rw [h] at h1; cases h1
  | some t =>
    rw [h] at h1 h2
    simp only [Option.map_some, Option.some.injEq] at h1 h2
    exact ⟨t.chunks, by rw [← h1], by rw [← h2], by rw [← h1, ← h2], by rw [← h1, ← h2], by rw [← h1, ← h2]⟩

/-! ### size bounds -/

/-- every chunk finished by the automatic branch while one byte is examined has a size within
the effective minimum and maximum, and the chunk under construction never exceeds the maximum -/
theorem feedAuto_bounds (cfg : Cfg) (hmin : cfg.chunkMin ≤ cfg.autoMin) (hpos : 0 < cfg.autoMax) :
    ∀ (fuel : Nat) (st st' : St) (b : UInt8), Wf st → st.curLen ≤ cfg.autoMax →
      feedAuto cfg fuel st b = some st' →
      st'.curLen ≤ cfg.autoMax ∧
      ∃ m, st'.chunks = st.chunks ++ m ∧ ∀ c ∈ m, cfg.autoMin ≤ c.length ∧ c.length ≤ cfg.autoMax
  | 0, st, st', b, _, _, h => by simp [feedAuto] at h
  | fuel + 1, st, st', b, hw, hle, h => by
    unfold feedAuto at h
    simp only at h
    split at h
    · split at h
      · exact feedAuto_bounds cfg hmin hpos fuel { st with buz := (buzUpdate cfg.W st.buz b).1 } st' b hw hle h
      · rename_i hge
        -- the chunk is ended (not refused: it has at least autoMin >= chunkMin bytes)
        have hw' := endChunk_wf cfg { st with buz := (buzUpdate cfg.W st.buz b).1 } false hw
        rcases endChunk_chunks cfg { st with buz := (buzUpdate cfg.W st.buz b).1 } false with hc | ⟨hc, hl, _, _, _⟩
        · -- nothing appended (only possible when nothing had to be ended)
          have hle' : (endChunk cfg { st with buz := (buzUpdate cfg.W st.buz b).1 } false).curLen ≤ cfg.autoMax := by
            unfold endChunk
            split
            · exact hle
            · split
              · exact hle
              · simp
          obtain ⟨r1, m, r2, r3⟩ := feedAuto_bounds cfg hmin hpos fuel _ st' b hw' hle' h
          exact ⟨r1, m, by rw [r2, hc], r3⟩
        · have hle' : (endChunk cfg { st with buz := (buzUpdate cfg.W st.buz b).1 } false).curLen ≤ cfg.autoMax := by
            rw [hl]; omega
          obtain ⟨r1, m, r2, r3⟩ := feedAuto_bounds cfg hmin hpos fuel _ st' b hw' hle' h
          refine ⟨r1, [st.cur] ++ m, by rw [r2, hc]; simp [St.cur], ?_⟩
          intro c hcm
          simp only [List.singleton_append, List.mem_cons] at hcm
          rcases hcm with rfl | hcm
          · have hl2 : st.cur.length = st.curLen := by rw [cur_length]; exact hw.symm
            rw [hl2]
            exact ⟨by omega, hle⟩
          · exact r3 c hcm
    · rename_i hno
      simp only [Option.some.injEq] at h
      subst h
      simp only [not_or, Nat.not_le] at hno
      exact ⟨by simp only; omega, [], by simp, by simp⟩

/-- **size bounds (automatic mode)**: every chunk finished while content is written
automatically has `auto_min ≤ size ≤ auto_max`; only the final chunk, forced out by
`zck_close`, may be smaller -/
theorem size_bounds (cfg : Cfg) (hmin : cfg.chunkMin ≤ cfg.autoMin) (hpos : 0 < cfg.autoMax) :
    ∀ (bs : Bytes) (st st' : St), Wf st → st.curLen ≤ cfg.autoMax → writeAuto cfg st bs = some st' →
      st'.curLen ≤ cfg.autoMax ∧ Wf st' ∧
      ∃ m, st'.chunks = st.chunks ++ m ∧ ∀ c ∈ m, cfg.autoMin ≤ c.length ∧ c.length ≤ cfg.autoMax
  | [], st, st', hw, hle, h => by
    simp only [writeAuto, Option.some.injEq] at h; subst h
    exact ⟨hle, hw, [], by simp, by simp⟩
  | x :: bs, st, st', hw, hle, h => by
    simp only [writeAuto] at h
    cases hf : feedAuto cfg (refeedFuel cfg) st x with
    | none => rw [hf] at h; cases h
    | some s =>
      rw [hf] at h
      obtain ⟨a1, m1, a2, a3⟩ := feedAuto_bounds cfg hmin hpos _ st s x hw hle hf
      have ws := (feedAuto_content cfg _ st s x hw hf).2
      obtain ⟨b1, b2, m2, b3, b4⟩ := size_bounds cfg hmin hpos bs s st' ws a1 h
      refine ⟨b1, b2, m1 ++ m2, by rw [b3, a2, List.append_assoc], ?_⟩
      intro c hc
      rcases List.mem_append.mp hc with h' | h'
      · exact a3 c h'
      · exact b4 c h'

/-- the effective limits `comp_init` computes are consistent for every configured minimum and
maximum with `min ≤ max` (what the option setters enforce): `min ≤ auto_min ≤ auto_max ≤ max` -/
theorem limits_consistent (cfg : Cfg) (h : cfg.chunkMin ≤ cfg.chunkMax) :
    cfg.chunkMin ≤ cfg.autoMin ∧ cfg.autoMin ≤ cfg.autoMax ∧ cfg.autoMax ≤ cfg.chunkMax := by
  unfold Cfg.autoMin Cfg.autoMax
  simp only
  refine ⟨?_, ?_, ?_⟩ <;> (repeat' split) <;> omega

/-! Non-vacuity (tests): the generated defaults give the documented effective limits -/
example : (Cfg.norm { manual := false, chunkMin := 0, chunkMax := 0 }).autoMin = 8192 ∧
          (Cfg.norm { manual := false, chunkMin := 0, chunkMax := 0 }).autoMax = 131072 := by decide
example : (Cfg.norm { manual := false, chunkMin := 1, chunkMax := 5000 }).autoMin = 5000 := by decide

end Zck.C16
