/-
C15 — A unit-decoded chunk is verified before any of its bytes are released.
Theorems about the model of `comp_read` / `comp_end_dchunk` / `import_dict` (`Reader.lean`), for
an ARBITRARY codec `D` (no hypothesis: it may return anything for corrupted input) and an
arbitrary hash function `H`.
-/
import ZckModel.ReaderLemmas
import ZckModel.Pred.Read

namespace Zck.C15
open Zck Zck.Format Zck.Reader

/-- a sequence of `zck_read` calls with the given buffer sizes: all bytes written to the caller's
buffers, in order (including whatever a failing call had already copied), and the final context -/
def readCalls (H : HashFn) (D : Decomp) (f : Bytes) : Ctx → List Nat → Bytes × Ctx
  | c, [] => ([], c)
  | c, n :: ns =>
    let r := compRead H D f c n
    let rest := readCalls H D f r.2 ns
    (r.1.bytes ++ rest.1, rest.2)

/-- **sticky error**: once the context is in an error state a read returns -1 and no bytes -/
theorem err_sticky (H : HashFn) (D : Decomp) (f : Bytes) (c : Ctx) (n : Nat) (h : c.err = true) :
    compRead H D f c n = (⟨-1, []⟩, c) := by
  unfold compRead; simp [h]

theorem readCalls_err (H : HashFn) (D : Decomp) (f : Bytes) (c : Ctx) (ns : List Nat) (h : c.err = true) :
    (readCalls H D f c ns).1 = [] := by
  induction ns with
  | nil => rfl
  | cons n ns ih =>
    simp only [readCalls, err_sticky H D f c n h, List.nil_append]
    exact ih

/-- **C15 (every history of reads)**: with unit-decoded chunks (any compression type other than
"none"), for every file, every context satisfying the reader invariant and every sequence of
buffer sizes, everything the calls hand out is a prefix of: what was already buffered, followed
by decoded content of chunks whose stored bytes match their index checksum (`Good`). -/
theorem calls_release_verified (H : HashFn) (D : Decomp) (f : Bytes) (hdr : Hdr) (hz : hdr.compType ≠ 0) :
    ∀ (ns : List Nat) (c : Ctx), c.hdr = hdr → Inv c → InvD c →
      ∃ G : List Bytes, (∀ p ∈ G, Good H D hdr p) ∧
        ∃ rest, c.dc ++ G.flatten = (readCalls H D f c ns).1 ++ rest
  | [], c, _, _, _ => ⟨[], by simp, c.dc, by simp [readCalls]⟩
  | n :: ns, c, hh, hI, hD => by
    obtain ⟨a1, a2, a3, a4⟩ := compRead_ok H D f c n (hh ▸ hz) hI hD
    rw [hh] at a1 a4
    simp only [readCalls]
    rcases a4 with hrel | ⟨e1, e2, mid, rest, e3, e4⟩
    · obtain ⟨G1, g1, q1⟩ := hrel
      obtain ⟨G2, g2, rest2, q2⟩ := calls_release_verified H D f hdr hz ns _ a1 a2 a3
      refine ⟨G1 ++ G2, ?_, rest2, ?_⟩
      · intro p hp
        rcases List.mem_append.mp hp with h | h
        · exact g1 p h
        · exact g2 p h
      · rw [List.flatten_append, ← List.append_assoc, ← q1, List.append_assoc, q2, List.append_assoc]
    · obtain ⟨G1, g1, q1⟩ := e3
      refine ⟨G1, g1, rest, ?_⟩
      rw [readCalls_err H D f _ ns e1, List.append_nil, ← q1, e4]

/-- the context right after a successful open satisfies the reader invariant, with nothing buffered -/
theorem openCtx_inv (h : Hdr) : Inv (openCtx h) ∧ InvD (openCtx h) ∧ (openCtx h).dc = [] := by
  refine ⟨⟨Or.inr ⟨rfl, rfl⟩, fun _ => rfl⟩, fun _ _ _ _ => rfl, rfl⟩

/-- **C15**: after opening a file whose chunks are decoded as a unit, no sequence of reads ever
returns a byte that is not part of the decoded content of verified chunks, in order. -/
theorem C15 (H : HashFn) (D : Decomp) (f : Bytes) (h : Hdr) (hz : h.compType ≠ 0) (ns : List Nat) :
    ∃ G : List Bytes, (∀ p ∈ G, Good H D h p) ∧
      ∃ rest, G.flatten = (readCalls H D f (openCtx h) ns).1 ++ rest := by
  obtain ⟨i1, i2, i3⟩ := openCtx_inv h
  obtain ⟨G, g, rest, q⟩ := calls_release_verified H D f h hz ns (openCtx h) rfl i1 i2
  exact ⟨G, g, rest, by rw [← q, i3, List.nil_append]⟩

/-- **the failing read and the ones after it**: a chunk end that does not verify ends the call
with -1, empties the decoded buffer and leaves the context in the error state — so (by
`err_sticky`) no later read yields that chunk's data either -/
theorem bad_chunk_drops_buffer (H : HashFn) (D : Decomp) (c : Ctx) (ki : Nat) (ch : Chunk) (useDict : Bool)
    (out : Bytes) (fin : Bool) (r : RdOut) (c' : Ctx)
    (hbad : ∀ c2, endDchunk H D c ki ch useDict ≠ .ok c2)
    (h : stepEnd H D c ki ch useDict out fin = .done r c') :
    r.ret = -1 ∧ c'.dc = [] ∧ c'.err = true := by
  unfold stepEnd at h
  split at h
  · simp only [Step.done.injEq] at h; obtain ⟨rfl, rfl⟩ := h; exact ⟨rfl, rfl, rfl⟩
  · simp only [Step.done.injEq] at h; obtain ⟨rfl, rfl⟩ := h; exact ⟨rfl, rfl, rfl⟩
  · rename_i c2 hok; exact absurd hok (hbad c2)

end Zck.C15
