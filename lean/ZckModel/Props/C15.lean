import ZckModel.Reader
import ZckModel.Pred.Read
namespace Zck.C15
end Zck.C15
