/-
C15 — A unit-decoded chunk is verified before any of its bytes are released.
Theorems about the model of `comp_read` / `comp_end_dchunk` / `import_dict` (`Reader.lean`), for
an ARBITRARY codec `D` (no hypothesis: it may return anything for corrupted input) and an
arbitrary hash function `H`.
-/
import ZckModel.ReaderLemmas
import ZckModel.Pred.Read

namespace Zck.C15
open Zck Zck.Format Zck.Reader

/-- what a consumer may do between reads -/
inductive Call where
  | read (n : Nat)      -- zck_read with a buffer of n bytes
  | clearError          -- zck_clear_error
deriving Repr, DecidableEq

/-- a sequence of calls on one context: all bytes written to the caller's buffers, in order
(including whatever a failing call had already copied), and the final context -/
def readCalls (H : HashFn) (D : Decomp) (f : Bytes) : Ctx → List Call → Bytes × Ctx
  | c, [] => ([], c)
  | c, .read n :: ns =>
    let r := compRead H D f c n
    let rest := readCalls H D f r.2 ns
    (r.1.bytes ++ rest.1, rest.2)
  | c, .clearError :: ns => readCalls H D f (clearError c).2 ns

/-- **sticky error**: once the context is in an error state a read returns -1 and no bytes -/
theorem err_sticky (H : HashFn) (D : Decomp) (f : Bytes) (c : Ctx) (n : Nat) (h : c.err = true) :
    compRead H D f c n = (⟨-1, []⟩, c) := by
  unfold compRead; simp [h]

/-- a fatal error cannot be cleared: nothing is ever handed out again -/
theorem readCalls_fatal (H : HashFn) (D : Decomp) (f : Bytes) (c : Ctx) (ns : List Call)
    (hf : c.fatal = true) (h : c.err = true) : (readCalls H D f c ns).1 = [] := by
  induction ns with
  | nil => rfl
  | cons n ns ih =>
    cases n with
    | read n =>
      simp only [readCalls, err_sticky H D f c n h, List.nil_append]
      exact ih
    | clearError =>
      simp only [readCalls, clearError, hf, ↓reduceIte]
      exact ih

theorem clearError_inv (c : Ctx) : (clearError c).2.hdr = c.hdr ∧ (Inv c → Inv (clearError c).2) ∧
    (clearError c).2.dc = c.dc := by
  unfold clearError
  split
  · exact ⟨rfl, id, rfl⟩
  · exact ⟨rfl, id, rfl⟩

/-- **C15 (every history of reads and error clearings)**: with unit-decoded chunks (any
compression type other than "none"), for every file, every context satisfying the reader
invariant whose buffer holds verified content, and every sequence of reads (any buffer sizes)
and `zck_clear_error` calls: everything the calls write to the caller's buffers consists of
pieces of decoded content of chunks whose stored bytes match their index checksum (`Ver`). -/
theorem calls_release_verified (H : HashFn) (D : Decomp) (f : Bytes) (hdr : Hdr) (hz : hdr.compType ≠ 0) :
    ∀ (ns : List Call) (c : Ctx), c.hdr = hdr → Inv c → Ver H D hdr c.dc →
      Ver H D hdr (readCalls H D f c ns).1
  | [], c, _, _, _ => by simpa [readCalls] using Ver.nil H D hdr
  | .clearError :: ns, c, hh, hI, hd => by
    obtain ⟨k1, k2, k3⟩ := clearError_inv c
    simp only [readCalls]
    exact calls_release_verified H D f hdr hz ns _ (k1.trans hh) (k2 hI) (k3 ▸ hd)
  | .read n :: ns, c, hh, hI, hd => by
    obtain ⟨a1, a2, a3, a4⟩ := compRead_ok H D f c n (hh ▸ hz) hI (hh ▸ hd)
    rw [hh] at a1 a3 a4
    simp only [readCalls]
    exact Ver.append a3 (calls_release_verified H D f hdr hz ns _ a1 a2 a4)

/-- the context right after a successful open satisfies the reader invariant, with nothing buffered -/
theorem openCtx_inv (h : Hdr) : Inv (openCtx h) ∧ (openCtx h).dc = [] :=
  ⟨⟨Or.inr ⟨rfl, rfl⟩, fun _ => rfl⟩, rfl⟩

/-- **C15**: after opening a file whose chunks are decoded as a unit, no sequence of reads and
error clearings ever returns a byte that was not decoded from a chunk whose stored bytes match
its index checksum (and which has its declared size). -/
theorem C15 (H : HashFn) (D : Decomp) (f : Bytes) (h : Hdr) (hz : h.compType ≠ 0) (ns : List Call) :
    Ver H D h (readCalls H D f (openCtx h) ns).1 := by
  obtain ⟨i1, i3⟩ := openCtx_inv h
  exact calls_release_verified H D f h hz ns (openCtx h) rfl i1 (i3 ▸ Ver.nil H D h)

/-- **the failing read and the ones after it**: a chunk end that does not verify ends the call
with -1, empties the decoded buffer and leaves the context in a FATAL error state — which
`zck_clear_error` refuses to clear, so (by `readCalls_fatal`) no later read yields anything -/
theorem bad_chunk_drops_buffer (H : HashFn) (D : Decomp) (c : Ctx) (ki : Nat) (ch : Chunk) (useDict : Bool)
    (out : Bytes) (fin : Bool) (r : RdOut) (c' : Ctx)
    (hbad : ∀ c2, endDchunk H D c ki ch useDict ≠ .ok c2) (hno : endDchunk H D c ki ch useDict ≠ .oom)
    (h : stepEnd H D c ki ch useDict out fin = .done r c') :
    r.ret = -1 ∧ c'.dc = [] ∧ c'.err = true ∧ c'.fatal = true ∧ (clearError c').1 = false := by
  unfold stepEnd at h
  split at h
  · rename_i ho; exact absurd ho hno
  · simp only [Step.done.injEq] at h; obtain ⟨rfl, rfl⟩ := h; exact ⟨rfl, rfl, rfl, rfl, rfl⟩
  · simp only [Step.done.injEq] at h; obtain ⟨rfl, rfl⟩ := h; exact ⟨rfl, rfl, rfl, rfl, rfl⟩
  · rename_i c2 hok; exact absurd hok (hbad c2)

end Zck.C15
