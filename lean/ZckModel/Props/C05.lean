/-
C05 — Range reassembly is fragmentation-independent, verified and confined.
Theorems about the model of the download callbacks (`Dl.lean`), for an ARBITRARY hash function, ARBITRARY
regex oracle (whatever `regcomp`/`regexec` answer) and ARBITRARY bytes and fragmentations unless a
hypothesis says otherwise.
-/
import ZckModel.Dl
import ZckModel.Pred.Dl
import ZckModel.Props.C08
import ZckModel.Props.C13

namespace Zck.C05
open Zck Zck.Format Zck.Dl Zck.Copy

/-! ### the invariant of a feeding session -/

/-- chunk `k` may be filled: it was not valid when the session began and it is in the request -/
def Allowed (e : Env) (v0 : List Int) (k : Nat) : Prop := v0.getD k 0 ≠ 1 ∧ ∃ rc ∈ e.ridx, rc.tgt = k

/-- offset `i` is outside the extents of all chunks that may be filled (header, valid chunks, chunks not requested,
anything beyond the data) -/
def Outside (e : Env) (v0 : List Int) (i : Nat) : Prop :=
  ∀ k tc, e.hdr.chunks[k]? = some tc → Allowed e v0 k →
    (i < e.dataOff + tc.start ∨ e.dataOff + tc.start + tc.compLen ≤ i)

/-- what every callback preserves (`f0`, `v0`: target file and chunk marks when the session began) -/
structure Good (e : Env) (f0 : Bytes) (v0 : List Int) (st : St) : Prop where
  file : ∀ i, Outside e v0 i → st.file.getD i 0 = f0.getD i 0
  keep : ∀ k, v0.getD k 0 = 1 → st.valid.getD k 0 = 1
  chk  : ∀ k, st.tgtCheck = some k → Allowed e v0 k ∧ ∃ tc, e.hdr.chunks[k]? = some tc
  wic  : st.writeInChunk > 0 → ∃ k tc, st.tgtCheck = some k ∧ e.hdr.chunks[k]? = some tc ∧
           e.dataOff + tc.start ≤ st.pos ∧ st.pos + st.writeInChunk = e.dataOff + tc.start + tc.compLen

theorem Good.congr {e : Env} {f0 : Bytes} {v0 : List Int} {st st' : St} (h : Good e f0 v0 st)
    (h1 : st'.file = st.file) (h2 : st'.valid = st.valid) (h3 : st'.tgtCheck = st.tgtCheck)
    (h4 : st'.writeInChunk = st.writeInChunk) (h5 : st'.pos = st.pos) : Good e f0 v0 st' :=
  ⟨by rw [h1]; exact h.file, by rw [h2]; exact h.keep, by rw [h3]; exact h.chk, by rw [h3, h4, h5]; exact h.wic⟩

theorem getD_set_ne (l : List Int) (k k' : Nat) (v : Int) (h : k' ≠ k) : (l.set k v).getD k' 0 = l.getD k' 0 := by
  simp [List.getD, h.symm]

/-- `zero_chunk` on a chunk that may be filled -/
theorem zeroChunk_file (e : Env) (v0 : List Int) (st : St) (k : Nat) (c : Chunk) (hc : e.hdr.chunks[k]? = some c)
    (ha : Allowed e v0 k) (i : Nat) (hi : Outside e v0 i) :
    (zeroChunk e st c).file.getD i 0 = st.file.getD i 0 := by
  unfold zeroChunk
  simp only
  apply C08.writeAt_outside
  have := hi k c hc ha
  simp only [zeros, List.length_replicate]
  omega

theorem good_setChunkValid (e : Env) (f0 : Bytes) (v0 : List Int) (st : St) (k : Nat)
    (h : Good e f0 v0 st) (hk : st.tgtCheck = some k) (hw : st.writeInChunk = 0) :
    Good e f0 v0 (setChunkValid e st k).2 ∧ (setChunkValid e st k).2.writeInChunk = 0 := by
  obtain ⟨ha, tc, htc⟩ := h.chk k hk
  unfold setChunkValid
  rw [htc]
  simp only
  have hkeep : ∀ (l : List Int) (v : Int), (∀ k', v0.getD k' 0 = 1 → l.getD k' 0 = 1) →
      ∀ k', v0.getD k' 0 = 1 → (l.set k v).getD k' 0 = 1 := by
    intro l v hl k' hk'
    have : k' ≠ k := by intro heq; rw [heq] at hk'; exact ha.1 hk'
    rw [getD_set_ne _ _ _ _ this]; exact hl k' hk'
  cases hh : st.hash with
  | none =>
    simp only
    refine ⟨⟨?_, ?_, ?_, ?_⟩, ?_⟩
    · intro i hi
      have := zeroChunk_file e v0 { st with err := true, valid := st.valid.set k 0 } k tc htc ha i hi
      simp only [zeroChunk] at this ⊢
      rw [this]; exact h.file i hi
    · simp only [zeroChunk]
      exact hkeep _ _ (hkeep _ _ h.keep)
    · intro k' hk'
      simp only [zeroChunk] at hk'
      exact h.chk k' hk'
    · intro hpos
      simp only [zeroChunk] at hpos
      omega
    · simp only [zeroChunk]; exact hw
  | some acc =>
    simp only
    generalize (if tc.compLen = 0 then (hsize e.hdr.chunkHashType).map zeros else e.H e.hdr.chunkHashType acc) = dg
    by_cases hd : (dg == some tc.digest) = true
    · simp only [hd, ↓reduceIte]
      refine ⟨⟨?_, ?_, ?_, ?_⟩, ?_⟩
      · exact h.file
      · exact hkeep _ _ h.keep
      · intro k' hk'; simp at hk'
      · intro hpos; simp only at hpos; omega
      · exact hw
    · simp only [hd, Bool.false_eq_true, ↓reduceIte]
      refine ⟨⟨?_, ?_, ?_, ?_⟩, ?_⟩
      · intro i hi
        have := zeroChunk_file e v0 { st with hash := none } k tc htc ha i hi
        simp only [zeroChunk] at this ⊢
        rw [this]; exact h.file i hi
      · simp only [zeroChunk]
        exact hkeep _ _ h.keep
      · intro k' hk'
        simp only [zeroChunk] at hk'
        exact h.chk k' hk'
      · intro hpos
        simp only [zeroChunk] at hpos
        omega
      · simp only [zeroChunk]; exact hw

theorem good_dlWrite (e : Env) (f0 : Bytes) (v0 : List Int) (st : St) (at_ : Bytes) (h : Good e f0 v0 st) :
    Good e f0 v0 (dlWrite st at_).2 := by
  unfold dlWrite
  by_cases hw : st.writeInChunk > 0
  · simp only [hw, ↓reduceIte]
    obtain ⟨k, tc, hk, htc, hlo, hhi⟩ := h.wic hw
    obtain ⟨ha, _⟩ := h.chk k hk
    generalize hwb : (if st.writeInChunk < at_.length then st.writeInChunk else at_.length) = wb
    have hwb1 : wb ≤ st.writeInChunk := by rw [← hwb]; split <;> omega
    have hwb2 : wb ≤ at_.length := by rw [← hwb]; split <;> omega
    have hbase : Good e f0 v0 { st with file := writeAt st.file st.pos (at_.take wb), pos := st.pos + wb, writeInChunk := st.writeInChunk - wb } := by
      refine ⟨?_, h.keep, h.chk, ?_⟩
      · intro i hi
        simp only
        rw [C08.writeAt_outside _ _ _ _ (by
          have := hi k tc htc ha
          simp only [List.length_take]
          omega)]
        exact h.file i hi
      · intro hpos
        simp only at hpos ⊢
        exact ⟨k, tc, hk, htc, by omega, by omega⟩
    by_cases h0 : wb = 0
    · simp only [h0, ↓reduceIte]
      exact (h0 ▸ hbase).congr rfl rfl rfl rfl rfl
    · simp only [h0, ↓reduceIte]
      cases hh : st.hash with
      | none => simp only; exact hbase.congr rfl rfl rfl rfl rfl
      | some acc => simp only; exact hbase.congr rfl rfl rfl rfl rfl
  · simp only [hw, ↓reduceIte]; exact h

theorem findNext_spec (e : Env) (st : St) : ∀ (l : List RChunk) (j j' : Nat) (rc : RChunk),
    findNext e st l j = some (j', rc) →
      rc ∈ l ∧ st.valid.getD rc.tgt 0 ≠ 1 ∧ ∃ tc, e.hdr.chunks[rc.tgt]? = some tc ∧ rc.compLen = tc.compLen
  | [], _, _, _, h => by simp [findNext] at h
  | r :: rest, j, j', rc, h => by
    unfold findNext at h
    split at h
    · have := findNext_spec e st rest (j + 1) j' rc h
      exact ⟨List.mem_cons_of_mem _ this.1, this.2⟩
    · split at h
      · have := findNext_spec e st rest (j + 1) j' rc h
        exact ⟨List.mem_cons_of_mem _ this.1, this.2⟩
      · rename_i hv
        split at h
        · rename_i tc htc
          split at h
          · rename_i hsz
            simp only [Option.some.injEq, Prod.mk.injEq] at h
            obtain ⟨_, rfl⟩ := h
            exact ⟨List.mem_cons_self, hv, tc, htc, hsz⟩
          · have := findNext_spec e st rest (j + 1) j' rc h
            exact ⟨List.mem_cons_of_mem _ this.1, this.2⟩
        · have := findNext_spec e st rest (j + 1) j' rc h
          exact ⟨List.mem_cons_of_mem _ this.1, this.2⟩

theorem good_dlVerify (e : Env) (f0 : Bytes) (v0 : List Int) (st : St)
    (h : Good e f0 v0 st) (hw : st.writeInChunk = 0) :
    Good e f0 v0 (dlVerify e st).2 ∧ (dlVerify e st).2.writeInChunk = 0 := by
  unfold dlVerify
  cases hk : st.tgtCheck with
  | none => exact ⟨h, hw⟩
  | some k => exact good_setChunkValid e f0 v0 st k h hk hw

theorem good_dlOpen (e : Env) (f0 : Bytes) (v0 : List Int) (st : St) (hg : Good e f0 v0 st) :
    Good e f0 v0 (dlOpen e st) := by
  unfold dlOpen
  simp only
  generalize hcur : (if st.curNull = true ∨ st.cur ≥ e.ridx.length then 0 else st.cur) = cur
  have hg2 : Good e f0 v0 { st with cur := cur, curNull := false } := hg.congr rfl rfl rfl rfl rfl
  cases hf : findNext e { st with cur := cur, curNull := false } (e.ridx.drop cur) cur with
  | none => simp only; exact hg2
  | some p =>
    obtain ⟨j, rc⟩ := p
    simp only
    obtain ⟨hmem, hnv, tc, htc, hsz⟩ := findNext_spec e _ _ _ _ _ hf
    simp only at hnv
    rw [htc]
    simp only
    have hal : Allowed e v0 rc.tgt := ⟨fun h1 => hnv (hg.keep _ h1), rc, List.mem_of_mem_drop hmem, rfl⟩
    refine ⟨hg.file, hg.keep, ?_, ?_⟩
    · intro k hk
      simp only [Option.some.injEq] at hk
      subst hk
      exact ⟨hal, tc, htc⟩
    · intro _
      exact ⟨rc.tgt, tc, rfl, htc, Nat.le_refl _, by simp only; omega⟩

/-! ### generic preservation: a predicate on the six fields the write path uses, kept by the three primitive steps, is kept
by every callback -/

structure Preserved (e : Env) (P : St → Prop) : Prop where
  frame  : ∀ st st' : St, P st → st'.file = st.file → st'.pos = st.pos → st'.valid = st.valid → st'.hash = st.hash →
             st'.writeInChunk = st.writeInChunk → st'.tgtCheck = st.tgtCheck → P st'
  write  : ∀ st at_, P st → P (dlWrite st at_).2
  verify : ∀ st, P st → st.writeInChunk = 0 → P (dlVerify e st).2 ∧ (dlVerify e st).2.writeInChunk = 0
  opens  : ∀ st, P st → st.writeInChunk = 0 → P (dlOpen e st)

theorem pres_dlSelect (e : Env) {P : St → Prop} (hp : Preserved e P) (st : St)
    (h : P st) (hw : st.writeInChunk = 0) : P (dlSelect e st).2 := by
  unfold dlSelect
  have hv := hp.verify st h hw
  simp only
  split
  · exact hv.1
  · exact hp.opens _ hv.1 hv.2

theorem pres_dlWriteRange (e : Env) {P : St → Prop} (hp : Preserved e P) : ∀ (fuel : Nat) (st : St) (at_ : Bytes),
    P st → P (dlWriteRange e fuel st at_).2
  | 0, st, _, h => by unfold dlWriteRange; exact hp.frame _ _ h rfl rfl rfl rfl rfl rfl
  | fuel + 1, st, at_, h => by
    unfold dlWriteRange
    split
    · exact h
    · split
      · exact hp.frame _ _ h rfl rfl rfl rfl rfl rfl
      · have hw := hp.write st at_ h
        split
        · rename_i st1 heq
          rw [heq] at hw; exact hw
        · rename_i wb st1 heq
          rw [heq] at hw
          simp only at hw
          have hr : P (if st1.writeInChunk = 0 then dlSelect e st1 else (true, st1)).2 := by
            split
            · rename_i h0; exact pres_dlSelect e hp st1 hw h0
            · exact hw
          generalize (if st1.writeInChunk = 0 then dlSelect e st1 else (true, st1)) = r at hr ⊢
          simp only
          split
          · exact hr
          · split
            · have := pres_dlWriteRange e hp fuel r.2 (at_.drop wb) hr
              split
              · exact this
              · exact this
            · exact hr

theorem pres_mpPartHeader (e : Env) {P : St → Prop} (hp : Preserved e P) (s : Bytes) (st : St) (h : P st) :
    P (mpPartHeader e s st).2 := by
  unfold mpPartHeader
  split
  · split
    · split
      · simp only; split
        · exact h
        · exact hp.frame _ _ h rfl rfl rfl rfl rfl rfl
      · exact hp.frame _ _ h rfl rfl rfl rfl rfl rfl
    · split
      · exact hp.frame _ _ h rfl rfl rfl rfl rfl rfl
      · exact hp.frame _ _ h rfl rfl rfl rfl rfl rfl
  · exact hp.frame _ _ h rfl rfl rfl rfl rfl rfl

theorem pres_mpPayload (e : Env) {P : St → Prop} (hp : Preserved e P) (buf : Bytes) (i hs : Nat) (st : St) (h : P st) :
    P (mpPayload e buf i hs st).2.2.2 := by
  unfold mpPayload
  simp only
  split
  · exact pres_dlWriteRange e hp _ _ _ (hp.frame _ _ h rfl rfl rfl rfl rfl rfl)
  · exact pres_dlWriteRange e hp _ _ _ (hp.frame _ _ h rfl rfl rfl rfl rfl rfl)

theorem pres_mpLoop (e : Env) {P : St → Prop} (hp : Preserved e P) : ∀ (fuel : Nat) (buf : Bytes) (i hs : Nat) (st : St),
    P st → P (mpLoop e fuel buf i hs st).2
  | 0, _, _, _, st, h => by unfold mpLoop; exact hp.frame _ _ h rfl rfl rfl rfl rfl rfl
  | fuel + 1, buf, i, hs, st, h => by
    unfold mpLoop
    simp only
    split
    · split
      · exact h
      · have hq := pres_mpPayload e hp buf i hs st h
        generalize mpPayload e buf i hs st = r at hq ⊢
        obtain ⟨size, hs', ok, st'⟩ := r
        simp only at hq ⊢
        split
        · exact hq
        · exact pres_mpLoop e hp fuel buf _ _ st' hq
    · split
      · split
        · exact hp.frame _ _ h rfl rfl rfl rfl rfl rfl
        · exact h
      · split
        · exact pres_mpLoop e hp fuel buf _ _ st h
        · rename_i j _
          have hq := pres_mpPartHeader e hp (cstr ((buf.set (j + 3) 0).drop i)) st h
          split
          · rename_i heq; rw [heq] at hq; exact hq
          · rename_i heq; rw [heq] at hq; exact pres_mpLoop e hp fuel _ _ _ _ hq

theorem pres_genRegex (e : Env) {P : St → Prop} (hp : Preserved e P) (st : St) (h : P st) :
    P (genRegex e st).2 := by
  unfold genRegex
  simp only
  split
  · exact hp.frame _ _ h rfl rfl rfl rfl rfl rfl
  · split
    · exact hp.frame _ _ h rfl rfl rfl rfl rfl rfl
    · exact hp.frame _ _ h rfl rfl rfl rfl rfl rfl

theorem pres_mpExtract (e : Env) {P : St → Prop} (hp : Preserved e P) (st : St) (b : Bytes) (h : P st) :
    P (mpExtract e st b).2 := by
  unfold mpExtract
  split
  · exact h
  · simp only
    have h1 : P (mpJoin st b).2 := by
      unfold mpJoin
      split
      · exact hp.frame _ _ h rfl rfl rfl rfl rfl rfl
      · exact h
    have h2 : P (mpEnsureRx e (mpJoin st b).2).2 := by
      unfold mpEnsureRx
      split
      · exact pres_genRegex e hp _ h1
      · exact h1
    split
    · exact h2
    · exact pres_mpLoop e hp _ _ _ _ _ h2

theorem pres_getBoundary (e : Env) {P : St → Prop} (hp : Preserved e P) (st : St) (b : Bytes) (h : P st) :
    P (getBoundary e st b) := by
  unfold getBoundary
  split
  · exact h
  · split
    · exact hp.frame _ _ h rfl rfl rfl rfl rfl rfl
    · rename_i st1 heq
      have h1 : P st1 := by
        unfold hdrEnsureRx at heq
        split at heq
        · split at heq
          · simp only [Option.some.injEq] at heq; subst heq; exact hp.frame _ _ h rfl rfl rfl rfl rfl rfl
          · simp at heq
        · simp only [Option.some.injEq] at heq; subst heq; exact h
      split
      · exact hp.frame _ _ h1 rfl rfl rfl rfl rfl rfl
      · simp only
        split
        · exact h1
        · split
          · exact hp.frame _ _ h1 rfl rfl rfl rfl rfl rfl
          · exact hp.frame _ _ h1 rfl rfl rfl rfl rfl rfl

theorem pres_writeChunkCb (e : Env) {P : St → Prop} (hp : Preserved e P) (st : St) (b : Bytes) (h : P st) :
    P (writeChunkCb e st b).2 := by
  unfold writeChunkCb
  simp only
  have h0 : P { st with dlBytes := st.dlBytes + b.length } := hp.frame _ _ h rfl rfl rfl rfl rfl rfl
  split
  · exact pres_mpExtract e hp _ b h0
  · exact pres_dlWriteRange e hp _ _ b h0

theorem pres_feed (e : Env) {P : St → Prop} (hp : Preserved e P) (stop clear : Bool) : ∀ (frags : List Bytes) (st : St) (acc : List Nat),
    P st → P (feed e stop clear st frags acc).2
  | [], st, acc, h => by unfold feed; exact h
  | b :: rest, st, acc, h => by
    unfold feed
    have h1 := pres_writeChunkCb e hp st b h
    generalize writeChunkCb e st b = r at h1 ⊢
    obtain ⟨r1, st1⟩ := r
    simp only at h1 ⊢
    split
    · exact h1
    · apply pres_feed e hp stop clear rest
      split
      · exact hp.frame _ _ h1 rfl rfl rfl rfl rfl rfl
      · exact h1

theorem pres_feedHdrs (e : Env) {P : St → Prop} (hp : Preserved e P) : ∀ (lines : List Bytes) (st : St) (acc : List Nat),
    P st → P (feedHdrs e st lines acc).2
  | [], st, acc, h => by unfold feedHdrs; exact h
  | b :: rest, st, acc, h => by
    unfold feedHdrs
    simp only [headerCb]
    exact pres_feedHdrs e hp rest _ _ (pres_getBoundary e hp st b h)

/-- a session starts with no chunk open -/
theorem good_init (e : Env) (st : St) (h1 : st.tgtCheck = none) (h2 : st.writeInChunk = 0) :
    Good e st.file st.valid st :=
  ⟨fun _ _ => rfl, fun _ h => h, fun k hk => by rw [h1] at hk; simp at hk, fun hpos => by omega⟩

theorem good_preserved (e : Env) (f0 : Bytes) (v0 : List Int) : Preserved e (Good e f0 v0) where
  frame := fun _ _ h h1 h5 h2 _ h4 h3 => h.congr h1 h2 h3 h4 h5
  write := fun st at_ h => good_dlWrite e f0 v0 st at_ h
  verify := fun st h hw => good_dlVerify e f0 v0 st h hw
  opens := fun st h _ => good_dlOpen e f0 v0 st h

/-- **C05 / C17 (confinement)**: whatever bytes arrive as header lines and as body, however they are cut into callback
invocations, whatever the regex functions answer, and whether or not the transport stops at a refusal or the application
clears errors: no byte of the target outside the extents of the requested, not yet valid chunks changes — not the header,
not a valid chunk, nothing beyond the data — and every chunk that was valid stays marked valid. -/
theorem confined (e : Env) (st : St) (lines frags : List Bytes) (stop clear : Bool)
    (h1 : st.tgtCheck = none) (h2 : st.writeInChunk = 0) :
    let fin := (feed e stop clear (feedHdrs e st lines []).2 frags []).2
    (∀ i, Outside e st.valid i → fin.file.getD i 0 = st.file.getD i 0) ∧
    (∀ k, st.valid.getD k 0 = 1 → fin.valid.getD k 0 = 1) := by
  have hg := pres_feed e (good_preserved e st.file st.valid) stop clear frags _ []
    (pres_feedHdrs e (good_preserved e st.file st.valid) lines st [] (good_init e st h1 h2))
  exact ⟨hg.file, hg.keep⟩

/-! ### verification: a chunk is marked valid only when the bytes at its extent hash to its checksum -/

theorem writeAt_length (f : Bytes) (off : Nat) (bs : Bytes) (h : bs ≠ []) :
    (writeAt f off bs).length = max f.length (off + bs.length) := by
  unfold writeAt
  have : bs.isEmpty = false := by cases bs <;> simp_all
  simp only [this, Bool.false_eq_true, ↓reduceIte, List.length_append, List.length_take, zeros, List.length_replicate,
    List.length_drop]
  omega

theorem writeAt_length_ge (f : Bytes) (off : Nat) (bs : Bytes) : f.length ≤ (writeAt f off bs).length := by
  by_cases h : bs = []
  · subst h; simp [writeAt]
  · rw [writeAt_length f off bs h]; omega

theorem slice_eq_of_getD (f g : Bytes) (s n : Nat) (hf : s + n ≤ f.length) (hg : s + n ≤ g.length)
    (h : ∀ i, s ≤ i → i < s + n → g.getD i 0 = f.getD i 0) : (g.drop s).take n = (f.drop s).take n := by
  apply List.ext_getElem?
  intro i
  simp only [List.getElem?_take, List.getElem?_drop]
  split
  · rename_i hi
    have := h (s + i) (by omega) (by omega)
    simp only [List.getD_eq_getElem?_getD] at this
    rw [List.getElem?_eq_getElem (by omega), List.getElem?_eq_getElem (by omega)] at this ⊢
    simpa using this
  · rfl

theorem slice_writeAt_disjoint (f : Bytes) (off : Nat) (bs : Bytes) (s n : Nat)
    (hd : off + bs.length ≤ s ∨ s + n ≤ off) (hf : s + n ≤ f.length) :
    ((writeAt f off bs).drop s).take n = (f.drop s).take n ∧ s + n ≤ (writeAt f off bs).length := by
  have hl := writeAt_length_ge f off bs
  refine ⟨slice_eq_of_getD f _ s n hf (by omega) ?_, by omega⟩
  intro i h1 h2
  apply C08.writeAt_outside
  omega

theorem slice_writeAt_append (f : Bytes) (s : Nat) (acc d : Bytes)
    (h : (f.drop s).take acc.length = acc) :
    ((writeAt f (s + acc.length) d).drop s).take (acc.length + d.length) = acc ++ d := by
  by_cases hd : d = []
  · subst hd; simp [writeAt, h]
  · have hlen : acc = [] ∨ s + acc.length ≤ f.length := by
      by_cases ha : acc = []
      · left; exact ha
      · right
        have := congrArg List.length h
        simp only [List.length_take, List.length_drop] at this
        have hpos : 0 < acc.length := List.length_pos_iff.mpr ha
        omega
    have hw := C08.writeAt_readback f (s + acc.length) d
    have hwl := writeAt_length f (s + acc.length) d hd
    have hdl : 0 < d.length := List.length_pos_iff.mpr hd
    apply List.ext_getElem?
    intro i
    simp only [List.getElem?_take, List.getElem?_drop]
    split
    · rename_i hi
      by_cases hia : i < acc.length
      · rw [List.getElem?_append_left hia]
        have hout := C08.writeAt_outside f (s + acc.length) d (s + i) (Or.inl (by omega))
        have hsl : s + acc.length ≤ f.length := by rcases hlen with h0 | h0; (subst h0; simp at hia); exact h0
        simp only [List.getD_eq_getElem?_getD] at hout
        rw [List.getElem?_eq_getElem (by omega), List.getElem?_eq_getElem (by omega)] at hout
        simp only [Option.getD_some] at hout
        rw [List.getElem?_eq_getElem (by omega), hout]
        have h2 := congrArg (fun l => l[i]?) h
        simp only [List.getElem?_take, List.getElem?_drop, hia, ↓reduceIte] at h2
        rw [← h2, List.getElem?_eq_getElem (by omega)]
      · rw [List.getElem?_append_right (by omega)]
        have h2 := congrArg (fun l => l[i - acc.length]?) hw
        simp only [List.getElem?_take, List.getElem?_drop] at h2
        rw [if_pos (by omega)] at h2
        rw [← h2]
        congr 1
        omega
    · rename_i hi
      rw [List.getElem?_eq_none (by simp; omega)]

/-- the target holds chunk `tc`: its extent lies inside the file and hashes to the index checksum (the all-zero checksum
for a chunk without stored bytes) — the reference parser's `storedChecked` -/
def ChunkOk (e : Env) (f : Bytes) (tc : Chunk) : Prop :=
  if tc.compLen = 0 then (hsize e.hdr.chunkHashType).map zeros = some tc.digest
  else e.dataOff + tc.start + tc.compLen ≤ f.length ∧
    e.H e.hdr.chunkHashType ((f.drop (e.dataOff + tc.start)).take tc.compLen) = some tc.digest

/-- extents of different chunks do not overlap (true of every parsed header: starts are running sums) -/
def Disj (e : Env) : Prop :=
  ∀ (k k' : Nat) (tc tc' : Chunk), e.hdr.chunks[k]? = some tc → e.hdr.chunks[k']? = some tc' → k ≠ k' →
    (tc.start + tc.compLen ≤ tc'.start ∨ tc'.start + tc'.compLen ≤ tc.start)

structure Ver (e : Env) (v0 : List Int) (st : St) : Prop where
  ok   : ∀ k tc, e.hdr.chunks[k]? = some tc → Allowed e v0 k → st.valid.getD k 0 = 1 → ChunkOk e st.file tc
  link : ∀ k tc acc, st.tgtCheck = some k → e.hdr.chunks[k]? = some tc → st.hash = some acc →
           acc.length + st.writeInChunk = tc.compLen ∧ st.pos = e.dataOff + tc.start + acc.length ∧
           (st.file.drop (e.dataOff + tc.start)).take acc.length = acc
  notv : ∀ k, st.tgtCheck = some k → st.valid.getD k 0 ≠ 1
  same : ∀ k, ¬ Allowed e v0 k → st.valid.getD k 0 = v0.getD k 0

def GV (e : Env) (f0 : Bytes) (v0 : List Int) (st : St) : Prop := Good e f0 v0 st ∧ Ver e v0 st

/-- a write inside the extent of chunk `k'` leaves `ChunkOk` of every other chunk alone -/
theorem chunkOk_writeAt (e : Env) (hd : Disj e) (f : Bytes) (k k' : Nat) (tc tc' : Chunk)
    (hk : e.hdr.chunks[k]? = some tc) (hk' : e.hdr.chunks[k']? = some tc') (hne : k ≠ k')
    (off : Nat) (bs : Bytes) (hlo : e.dataOff + tc'.start ≤ off) (hhi : off + bs.length ≤ e.dataOff + tc'.start + tc'.compLen)
    (h : ChunkOk e f tc) : ChunkOk e (writeAt f off bs) tc := by
  unfold ChunkOk at h ⊢
  split
  · rename_i h0; simpa [h0] using h
  · rename_i h0
    simp only [h0, ↓reduceIte] at h
    have := hd k k' tc tc' hk hk' hne
    have hs := slice_writeAt_disjoint f off bs (e.dataOff + tc.start) tc.compLen (by omega) h.1
    rw [hs.1]
    exact ⟨hs.2, h.2⟩

theorem gv_dlWrite (e : Env) (hd : Disj e) (f0 : Bytes) (v0 : List Int) (st : St) (at_ : Bytes) (h : GV e f0 v0 st) :
    GV e f0 v0 (dlWrite st at_).2 := by
  refine ⟨good_dlWrite e f0 v0 st at_ h.1, ?_⟩
  obtain ⟨hg, hv⟩ := h
  unfold dlWrite
  by_cases hw : st.writeInChunk > 0
  · simp only [hw, ↓reduceIte]
    obtain ⟨k, tc, hk, htc, hlo, hhi⟩ := hg.wic hw
    generalize hwb : (if st.writeInChunk < at_.length then st.writeInChunk else at_.length) = wb
    have hwb1 : wb ≤ st.writeInChunk := by rw [← hwb]; split <;> omega
    have hwb2 : wb ≤ at_.length := by rw [← hwb]; split <;> omega
    have hlen : (at_.take wb).length = wb := by simp; omega
    -- `ok` after the write, whatever happens to the hash
    have hok : ∀ k2 tc2, e.hdr.chunks[k2]? = some tc2 → Allowed e v0 k2 → st.valid.getD k2 0 = 1 →
        ChunkOk e (writeAt st.file st.pos (at_.take wb)) tc2 := by
      intro k2 tc2 h2 ha2 hv2
      have hne : k2 ≠ k := by intro heq; subst heq; exact hv.notv _ hk hv2
      exact chunkOk_writeAt e hd st.file k2 k tc2 tc h2 htc hne st.pos _ hlo (by rw [hlen]; omega) (hv.ok k2 tc2 h2 ha2 hv2)
    by_cases h0 : wb = 0
    · simp only [h0, ↓reduceIte]
      refine ⟨?_, ?_, hv.notv, hv.same⟩
      · intro k2 tc2 h2 ha2 hv2
        have := hok k2 tc2 h2 ha2 hv2
        rw [h0] at this; simpa using this
      · intro k2 tc2 acc hk2 h2 hacc
        simp only at hk2 hacc ⊢
        have := hv.link k2 tc2 acc hk2 h2 hacc
        simpa [writeAt] using this
    · simp only [h0, ↓reduceIte]
      cases hh : st.hash with
      | none =>
        simp only
        refine ⟨hok, ?_, hv.notv, hv.same⟩
        intro k2 tc2 acc hk2 h2 hacc
        simp at hacc
      | some acc =>
        simp only
        refine ⟨hok, ?_, hv.notv, hv.same⟩
        intro k2 tc2 acc2 hk2 h2 hacc
        simp only at hk2 hacc ⊢
        simp only [Option.some.injEq] at hacc
        subst hacc
        have hk2' : k2 = k := by rw [hk] at hk2; simpa using hk2.symm
        subst hk2'
        have htc2 : tc2 = tc := by rw [htc] at h2; simpa using h2.symm
        subst htc2
        obtain ⟨l1, l2, l3⟩ := hv.link k2 tc2 acc hk htc hh
        refine ⟨by simp only [List.length_append, hlen]; omega, by simp only [List.length_append, hlen]; omega, ?_⟩
        have := slice_writeAt_append st.file (e.dataOff + tc2.start) acc (at_.take wb) l3
        rw [← l2, hlen] at this
        simpa [List.length_append, hlen] using this
  · simp only [hw, ↓reduceIte]; exact hv

theorem getD_set_self_ne_one (l : List Int) (k : Nat) (v : Int) (hv : v ≠ 1) (h : l.getD k 0 ≠ 1) :
    (l.set k v).getD k 0 ≠ 1 := by
  simp only [List.getD_eq_getElem?_getD, List.getElem?_set] at h ⊢
  by_cases hk : k < l.length
  · simp [hk, hv]
  · simp [hk]

/-- zero-filling the extent of the chunk under verification and marking it `v ≠ 1` keeps `Ver` -/
theorem ver_fail (e : Env) (hd : Disj e) (v0 : List Int) (st : St) (k : Nat) (tc : Chunk) (valid' : List Int)
    (hv : Ver e v0 st) (hk : st.tgtCheck = some k) (htc : e.hdr.chunks[k]? = some tc) (ha : Allowed e v0 k)
    (hval : ∀ k2, k2 ≠ k → valid'.getD k2 0 = st.valid.getD k2 0) (hvk : valid'.getD k 0 ≠ 1) (st' : St)
    (hf : st'.file = writeAt st.file (e.dataOff + tc.start) (zeros tc.compLen)) (hva : st'.valid = valid')
    (hh : st'.hash = none) (ht : st'.tgtCheck = some k) : Ver e v0 st' := by
  refine ⟨?_, ?_, ?_, ?_⟩
  · intro k2 tc2 h2 ha2 hv2
    rw [hva] at hv2
    have hne : k2 ≠ k := by intro heq; subst heq; exact hvk hv2
    rw [hval k2 hne] at hv2
    rw [hf]
    exact chunkOk_writeAt e hd st.file k2 k tc2 tc h2 htc hne _ _ (Nat.le_refl _) (by simp [zeros]) (hv.ok k2 tc2 h2 ha2 hv2)
  · intro k2 tc2 acc _ _ hacc
    rw [hh] at hacc; simp at hacc
  · intro k2 hk2
    rw [ht] at hk2
    simp only [Option.some.injEq] at hk2
    subst hk2
    rw [hva]; exact hvk
  · intro k2 hn
    have hne : k2 ≠ k := by intro heq; subst heq; exact hn ha
    rw [hva, hval k2 hne]
    exact hv.same k2 hn

theorem gv_setChunkValid (e : Env) (hd : Disj e) (f0 : Bytes) (v0 : List Int) (st : St) (k : Nat)
    (h : GV e f0 v0 st) (hk : st.tgtCheck = some k) (hw : st.writeInChunk = 0) :
    GV e f0 v0 (setChunkValid e st k).2 ∧ (setChunkValid e st k).2.writeInChunk = 0 := by
  have hg := good_setChunkValid e f0 v0 st k h.1 hk hw
  refine ⟨⟨hg.1, ?_⟩, hg.2⟩
  obtain ⟨hgood, hv⟩ := h
  obtain ⟨ha, tc, htc⟩ := hgood.chk k hk
  have hnv := hv.notv k hk
  unfold setChunkValid
  rw [htc]
  simp only
  cases hh : st.hash with
  | none =>
    simp only
    apply ver_fail e hd v0 st k tc ((st.valid.set k 0).set k (-1)) hv hk htc ha
    · intro k2 hne; rw [getD_set_ne _ _ _ _ hne, getD_set_ne _ _ _ _ hne]
    · exact getD_set_self_ne_one _ _ _ (by decide) (getD_set_self_ne_one _ _ _ (by decide) hnv)
    · simp [zeroChunk]
    · simp [zeroChunk]
    · simp [zeroChunk]
    · simp [zeroChunk, hk]
  | some acc =>
    simp only
    obtain ⟨l1, l2, l3⟩ := hv.link k tc acc hk htc hh
    generalize hdg : (if tc.compLen = 0 then (hsize e.hdr.chunkHashType).map zeros else e.H e.hdr.chunkHashType acc) = dg
    by_cases hdd : (dg == some tc.digest) = true
    · simp only [hdd, ↓reduceIte]
      refine ⟨?_, ?_, ?_, ?_⟩
      · intro k2 tc2 h2 ha2 hv2
        simp only at hv2 ⊢
        by_cases hne : k2 = k
        · subst hne
          have : tc2 = tc := by rw [htc] at h2; simpa using h2.symm
          subst this
          unfold ChunkOk
          have hdg' : dg = some tc2.digest := by simpa using hdd
          split
          · rename_i h0; rw [← hdg', ← hdg]; simp [h0]
          · rename_i h0
            simp only [h0, ↓reduceIte] at hdg
            have hl : acc.length = tc2.compLen := by omega
            have hlen := congrArg List.length l3
            simp only [List.length_take, List.length_drop] at hlen
            refine ⟨by omega, ?_⟩
            rw [← hl, l3, hdg, hdg']
        · rw [getD_set_ne _ _ _ _ hne] at hv2
          exact hv.ok k2 tc2 h2 ha2 hv2
      · intro k2 tc2 acc2 hk2; simp at hk2
      · intro k2 hk2; simp at hk2
      · intro k2 hn
        have hne : k2 ≠ k := by intro heq; subst heq; exact hn ha
        simp only
        rw [getD_set_ne _ _ _ _ hne]; exact hv.same k2 hn
    · simp only [hdd, Bool.false_eq_true, ↓reduceIte]
      apply ver_fail e hd v0 st k tc (st.valid.set k (-1)) hv hk htc ha
      · intro k2 hne; rw [getD_set_ne _ _ _ _ hne]
      · exact getD_set_self_ne_one _ _ _ (by decide) hnv
      · simp [zeroChunk]
      · simp [zeroChunk]
      · simp [zeroChunk]
      · simp [zeroChunk, hk]

theorem gv_dlVerify (e : Env) (hd : Disj e) (f0 : Bytes) (v0 : List Int) (st : St)
    (h : GV e f0 v0 st) (hw : st.writeInChunk = 0) :
    GV e f0 v0 (dlVerify e st).2 ∧ (dlVerify e st).2.writeInChunk = 0 := by
  unfold dlVerify
  cases hk : st.tgtCheck with
  | none => exact ⟨h, hw⟩
  | some k => exact gv_setChunkValid e hd f0 v0 st k h hk hw

theorem gv_dlOpen (e : Env) (f0 : Bytes) (v0 : List Int) (st : St) (h : GV e f0 v0 st) :
    GV e f0 v0 (dlOpen e st) := by
  refine ⟨good_dlOpen e f0 v0 st h.1, ?_⟩
  obtain ⟨hg, hv⟩ := h
  unfold dlOpen
  simp only
  generalize hcur : (if st.curNull = true ∨ st.cur ≥ e.ridx.length then 0 else st.cur) = cur
  have hv2 : Ver e v0 { st with cur := cur, curNull := false } := ⟨hv.ok, hv.link, hv.notv, hv.same⟩
  cases hf : findNext e { st with cur := cur, curNull := false } (e.ridx.drop cur) cur with
  | none => simp only; exact hv2
  | some p =>
    obtain ⟨j, rc⟩ := p
    simp only
    obtain ⟨hmem, hnv, tc, htc, hsz⟩ := findNext_spec e _ _ _ _ _ hf
    simp only at hnv
    rw [htc]
    simp only
    refine ⟨hv.ok, ?_, ?_, hv.same⟩
    · intro k2 tc2 acc hk2 h2 hacc
      simp only [Option.some.injEq] at hk2 hacc
      subst hk2; subst hacc
      have : tc2 = tc := by rw [htc] at h2; simpa using h2.symm
      subst this
      simp only [List.length_nil, List.take_zero]
      exact ⟨by omega, by omega, trivial⟩
    · intro k2 hk2
      simp only [Option.some.injEq] at hk2
      subst hk2
      exact hnv

theorem gv_preserved (e : Env) (hd : Disj e) (f0 : Bytes) (v0 : List Int) : Preserved e (GV e f0 v0) where
  frame := fun st st' h h1 h5 h2 h6 h4 h3 =>
    ⟨h.1.congr h1 h2 h3 h4 h5,
     ⟨by rw [h1, h2]; exact h.2.ok, by rw [h1, h3, h4, h5, h6]; exact h.2.link, by rw [h2, h3]; exact h.2.notv,
      by rw [h2]; exact h.2.same⟩⟩
  write := fun st at_ h => gv_dlWrite e hd f0 v0 st at_ h
  verify := fun st h hw => gv_dlVerify e hd f0 v0 st h hw
  opens := fun st h _ => gv_dlOpen e f0 v0 st h

theorem gv_init (e : Env) (st : St) (h1 : st.tgtCheck = none) (h2 : st.writeInChunk = 0) :
    GV e st.file st.valid st :=
  ⟨good_init e st h1 h2,
   ⟨fun _ _ _ ha hv => absurd hv ha.1, fun k _ _ hk => by rw [h1] at hk; simp at hk,
    fun k hk => by rw [h1] at hk; simp at hk, fun _ _ => rfl⟩⟩

/-- **C05 / C17 (verification)**: for arbitrary header lines, body bytes, fragmentation, regex answers and hash function —
a chunk that was not valid before and is marked valid afterwards holds, at its extent in the target file, bytes that hash
to its index checksum.  (Nothing is assumed about the response: a chunk can only become valid through its checksum.) -/
theorem verified (e : Env) (hd : Disj e) (st : St) (lines frags : List Bytes) (stop clear : Bool)
    (h1 : st.tgtCheck = none) (h2 : st.writeInChunk = 0) :
    let fin := (feed e stop clear (feedHdrs e st lines []).2 frags []).2
    ∀ k tc, e.hdr.chunks[k]? = some tc → st.valid.getD k 0 ≠ 1 → fin.valid.getD k 0 = 1 → ChunkOk e fin.file tc := by
  have hg := pres_feed e (gv_preserved e hd st.file st.valid) stop clear frags _ []
    (pres_feedHdrs e (gv_preserved e hd st.file st.valid) lines st [] (gv_init e st h1 h2))
  intro fin k tc htc hnv hv
  by_cases ha : Allowed e st.valid k
  · exact hg.2.ok k tc htc ha hv
  · have := hg.2.same k ha
    rw [this] at hv
    exact absurd hv hnv

/-- marks change only on requested chunks that were not valid -/
theorem marks_confined (e : Env) (hd : Disj e) (st : St) (lines frags : List Bytes) (stop clear : Bool)
    (h1 : st.tgtCheck = none) (h2 : st.writeInChunk = 0) (k : Nat) (hk : ¬ Allowed e st.valid k) :
    (feed e stop clear (feedHdrs e st lines []).2 frags []).2.valid.getD k 0 = st.valid.getD k 0 :=
  (pres_feed e (gv_preserved e hd st.file st.valid) stop clear frags _ []
    (pres_feedHdrs e (gv_preserved e hd st.file st.valid) lines st [] (gv_init e st h1 h2))).2.same k hk

/-! ### checksum mismatch: zero-filled, marked failed, refused -/

/-- the verification of a completed chunk succeeds exactly when the bytes hashed while writing have the index checksum -/
theorem setChunkValid_iff (e : Env) (st : St) (k : Nat) (tc : Chunk) (acc : Bytes)
    (htc : e.hdr.chunks[k]? = some tc) (hh : st.hash = some acc) :
    (setChunkValid e st k).1 = true ↔
      (if tc.compLen = 0 then (hsize e.hdr.chunkHashType).map zeros else e.H e.hdr.chunkHashType acc) = some tc.digest := by
  unfold setChunkValid
  rw [htc]
  simp only [hh]
  generalize (if tc.compLen = 0 then (hsize e.hdr.chunkHashType).map zeros else e.H e.hdr.chunkHashType acc) = dg
  by_cases hd : (dg == some tc.digest) = true
  · simp only [hd, ↓reduceIte, true_iff]; simpa using hd
  · simp only [hd, Bool.false_eq_true, ↓reduceIte, false_iff]; simpa using hd

/-- **mismatch**: when the verification fails the chunk's extent is zero-filled and the chunk is marked failed -/
theorem mismatch_zeroed (e : Env) (st : St) (k : Nat) (tc : Chunk)
    (htc : e.hdr.chunks[k]? = some tc) (hk : k < st.valid.length) (hf : (setChunkValid e st k).1 = false) :
    (setChunkValid e st k).2.valid.getD k 0 = -1 ∧
    (((setChunkValid e st k).2.file.drop (e.dataOff + tc.start)).take tc.compLen = zeros tc.compLen) := by
  unfold setChunkValid at hf ⊢
  rw [htc] at hf ⊢
  simp only at hf ⊢
  have hrb := fun f => C08.writeAt_readback f (e.dataOff + tc.start) (zeros tc.compLen)
  simp only [zeros, List.length_replicate] at hrb
  cases hh : st.hash with
  | none =>
    simp only [zeroChunk, zeros]
    exact ⟨by simp [List.getD, hk], hrb _⟩
  | some acc =>
    rw [hh] at hf
    simp only at hf ⊢
    generalize (if tc.compLen = 0 then (hsize e.hdr.chunkHashType).map zeros else e.H e.hdr.chunkHashType acc) = dg at hf ⊢
    by_cases hd : (dg == some tc.digest) = true
    · simp [hd] at hf
    · simp only [hd, Bool.false_eq_true, ↓reduceIte, zeroChunk, zeros]
      exact ⟨by simp [List.getD, hk], hrb _⟩

/-- a failed verification makes `dl_write_range` return 0 -/
theorem dlSelect_fail (e : Env) (st : St) (h : (dlVerify e st).1 = false) : (dlSelect e st).1 = false := by
  unfold dlSelect; simp [h]

theorem dlWriteRange_refuses (e : Env) (fuel : Nat) (st st1 : St) (at_ : Bytes) (wb : Nat)
    (he : st.err = false) (hr : e.ridx.isEmpty = false)
    (hw : dlWrite st at_ = (some wb, st1)) (h0 : st1.writeInChunk = 0) (hv : (dlVerify e st1).1 = false) :
    (dlWriteRange e (fuel + 1) st at_).1 = 0 := by
  unfold dlWriteRange
  simp [he, hr, hw, h0, dlSelect_fail e st1 hv]

/-- the write callback reports an error (returns 0) when `dl_write_range` does, for a non-empty fragment -/
theorem cb_refuses_single (e : Env) (st : St) (b : Bytes) (hb : st.boundary = none)
    (h : (dlWriteRange e (2 * b.length + 2) { st with dlBytes := st.dlBytes + b.length } b).1 = 0) :
    (writeChunkCb e st b).1 = 0 := by
  unfold writeChunkCb
  simp only
  split
  · rename_i hx; simp [hb] at hx
  · simp [h]

theorem runFrom_later : ∀ (l : List Chunk) (n s : Nat), C13.RunFrom n s l → ∀ (k : Nat) (tc : Chunk), l[k]? = some tc → s ≤ tc.start
  | [], _, _, _, k, tc, h => by simp at h
  | c :: rest, n, s, hr, 0, tc, h => by
    simp only [List.getElem?_cons_zero, Option.some.injEq] at h; subst h; exact Nat.le_of_eq hr.2.1.symm
  | c :: rest, n, s, hr, k + 1, tc, h => by
    simp only [List.getElem?_cons_succ] at h
    have := runFrom_later rest _ _ hr.2.2 k tc h
    omega

theorem runFrom_disj : ∀ (l : List Chunk) (n s : Nat), C13.RunFrom n s l → ∀ (k k' : Nat) (tc tc' : Chunk),
    l[k]? = some tc → l[k']? = some tc' → k < k' → tc.start + tc.compLen ≤ tc'.start
  | [], _, _, _, k, _, tc, _, h, _, _ => by simp at h
  | c :: rest, n, s, hr, 0, 0, tc, tc', h, h', hlt => by omega
  | c :: rest, n, s, hr, 0, k' + 1, tc, tc', h, h', _ => by
    simp only [List.getElem?_cons_zero, Option.some.injEq] at h; subst h
    simp only [List.getElem?_cons_succ] at h'
    have := runFrom_later rest _ _ hr.2.2 k' tc' h'
    rw [hr.2.1]; exact this
  | c :: rest, n, s, hr, k + 1, 0, tc, tc', h, h', hlt => by omega
  | c :: rest, n, s, hr, k + 1, k' + 1, tc, tc', h, h', hlt => by
    simp only [List.getElem?_cons_succ] at h h'
    exact runFrom_disj rest _ _ hr.2.2 k k' tc tc' h h' (by omega)

/-- extents of the chunks of an index whose starts are running sums do not overlap -/
theorem disj_of_runFrom (e : Env) (h : C13.RunFrom 0 0 e.hdr.chunks) : Disj e := by
  intro k k' tc tc' hk hk' hne
  rcases Nat.lt_or_gt_of_ne hne with hlt | hgt
  · left; exact runFrom_disj _ _ _ h k k' tc tc' hk hk' hlt
  · right; exact runFrom_disj _ _ _ h k' k tc' tc hk' hk hgt

/-- **every header the library's parser accepts has non-overlapping chunk extents** (so `verified` applies to it) -/
theorem disj_of_open (H : HashFn) (f : Bytes) (e : Env) (hok : Header.openFile H f = .ok e.hdr)
    (hsmall : e.hdr.lead + e.hdr.headerLen ≤ 2^63 - 1) : Disj e :=
  disj_of_runFrom e (C13.open_sound H f e.hdr hok hsmall).2.2.1

end Zck.C05
