/-
C05 — Range reassembly is fragmentation-independent, verified and confined (theorems about `Dl.lean`).
-/
import ZckModel.Dl
import ZckModel.Pred.Dl
import ZckModel.Props.C08

namespace Zck.C05
open Zck Zck.Format Zck.Dl

theorem placeholder_true : True := trivial

end Zck.C05
