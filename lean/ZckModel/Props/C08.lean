/-
C08 — Local chunk reuse never accepts bytes that do not match the target index.
Theorems about the model of `zck_copy_chunks` / `write_and_verify_chunk` / `zck_find_matching_chunks`
(`Copy.lean`) for an arbitrary hash function.  The source is an argument the model cannot change
(that the real code does not write to it is checked by comparing the file before and after).
-/
import ZckModel.Copy
import ZckModel.Pred.Copy

namespace Zck.C08
open Zck Zck.Format Zck.Copy

/-! ### writes at an offset -/

theorem zeros_getD (n i : Nat) : (zeros n).getD i 0 = 0 := by
  unfold zeros
  by_cases h : i < n
  · simp [List.getD, List.getElem?_replicate, h]
  · simp [List.getD, List.getElem?_replicate, h]

/-- a write changes nothing outside `[off, off + |bs|)` (bytes beyond the end of a file read as 0:
a hole is indistinguishable from absent bytes in this view) -/
theorem writeAt_outside (f : Bytes) (off : Nat) (bs : Bytes) (i : Nat) (h : i < off ∨ off + bs.length ≤ i) :
    (writeAt f off bs).getD i 0 = f.getD i 0 := by
  unfold writeAt
  split
  · rfl
  · simp only [List.getD_eq_getElem?_getD]
    rcases h with h | h
    · by_cases hl : i < f.length
      · rw [List.append_assoc, List.append_assoc, List.getElem?_append_left (by simp; omega)]
        simp [List.getElem?_take, h]
      · have e1 : (f.take off ++ zeros (off - f.length) ++ bs ++ f.drop (off + bs.length))[i]? = some 0 := by
          rw [List.append_assoc, List.append_assoc, List.getElem?_append_right (by simp; omega)]
          rw [List.getElem?_append_left (by simp [zeros]; omega)]
          simp only [zeros, List.getElem?_replicate, List.length_take]
          rw [if_pos (by omega)]
        rw [e1, List.getElem?_eq_none (by omega)]
        rfl
    · have hlen : (f.take off ++ zeros (off - f.length) ++ bs).length = max off f.length - (max off f.length - off) + bs.length := by
        simp [zeros]; omega
      have hlen' : (f.take off ++ zeros (off - f.length) ++ bs).length = off + bs.length := by
        simp [zeros]; omega
      rw [List.getElem?_append_right (by omega), hlen', List.getElem?_drop]
      congr 2
      omega

/-- what was written can be read back at its offset -/
theorem writeAt_readback (f : Bytes) (off : Nat) (bs : Bytes) :
    ((writeAt f off bs).drop off).take bs.length = bs := by
  unfold writeAt
  split
  · rename_i h; have : bs = [] := by simpa using h
    subst this; simp
  · have hlen : (f.take off ++ zeros (off - f.length)).length = off := by simp [zeros]; omega
    rw [List.append_assoc (f.take off ++ zeros (off - f.length))]
    have : ((f.take off ++ zeros (off - f.length)) ++ (bs ++ f.drop (off + bs.length))).drop off
        = bs ++ f.drop (off + bs.length) := List.drop_left' hlen
    rw [this]
    simp

/-! ### `write_and_verify_chunk` -/

/-- a copy step touches only the extent of the chunk it fills -/
theorem writeAndVerify_confined (H : HashFn) (srcF : Bytes) (src tgtH : Hdr) (t : Tgt) (k : Nat) (sc tc : Chunk)
    (hsz : sc.compLen = tc.compLen) (i : Nat)
    (hi : i < dataOff tgtH + tc.start ∨ dataOff tgtH + tc.start + tc.compLen ≤ i) :
    (writeAndVerify H srcF src tgtH t k sc tc).f.getD i 0 = t.f.getD i 0 := by
  unfold writeAndVerify
  simp only
  have hd : ((srcF.drop (dataOff src + sc.start)).take sc.compLen).length ≤ sc.compLen := by
    simp only [List.length_take]; exact Nat.min_le_left _ _
  split
  · apply writeAt_outside
    simp only [List.length_take]
    rcases hi with h | h
    · left; exact h
    · right
      have : ((srcF.drop (dataOff src + sc.start)).take sc.compLen).length / BUF * BUF
          ≤ ((srcF.drop (dataOff src + sc.start)).take sc.compLen).length := Nat.div_mul_le_self _ _
      omega
  · split
    · apply writeAt_outside
      rcases hi with h | h
      · left; exact h
      · right; omega
    · simp only
      rw [writeAt_outside _ _ _ _ (by rcases hi with h | h; (left; exact h); (right; simp [zeros]; omega))]
      apply writeAt_outside
      rcases hi with h | h
      · left; exact h
      · right; omega

/-- **a chunk is marked valid only after its bytes have been verified**: when a copy step marks
chunk `k` valid, the bytes now stored at its extent are the source's stored bytes, they hash to
the source index checksum under the source's chunk checksum type, and the step had been given a
source chunk of exactly the target's stored size -/
theorem writeAndVerify_valid (H : HashFn) (srcF : Bytes) (src tgtH : Hdr) (t : Tgt) (k : Nat) (sc tc : Chunk)
    (hk : k < t.valid.length) (hnot : t.valid.getD k 0 ≠ 1)
    (hv : (writeAndVerify H srcF src tgtH t k sc tc).valid.getD k 0 = 1) :
    ∃ data, data.length = sc.compLen ∧ H src.chunkHashType data = some sc.digest ∧
      (((writeAndVerify H srcF src tgtH t k sc tc).f.drop (dataOff tgtH + tc.start)).take data.length = data) := by
  unfold writeAndVerify at hv ⊢
  simp only at hv ⊢
  generalize hdat : (srcF.drop (dataOff src + sc.start)).take sc.compLen = data at hv ⊢
  have hd : data.length ≤ sc.compLen := by
    rw [← hdat]; simp only [List.length_take]; exact Nat.min_le_left _ _
  by_cases h1 : data.length < sc.compLen
  · simp only [h1, ↓reduceIte] at hv
    exact absurd hv hnot
  · simp only [h1, ↓reduceIte] at hv ⊢
    by_cases h2 : (H src.chunkHashType data == some sc.digest) = true
    · simp only [h2, ↓reduceIte] at hv ⊢
      exact ⟨data, by omega, by simpa using h2, writeAt_readback _ _ _⟩
    · simp only [h2, Bool.false_eq_true, ↓reduceIte] at hv
      simp [List.getD, List.getElem?_set, hk] at hv

/-! ### the whole copy -/

/-- the set of offsets a copy may write: extents of target chunks (from number `k` on) that are
not marked valid -/
def mayWrite (tgtH : Hdr) (valid : List Int) : List Chunk → Nat → Nat → Prop
  | [], _, _ => False
  | tc :: rest, k, i =>
    (valid.getD k 0 ≠ 1 ∧ dataOff tgtH + tc.start ≤ i ∧ i < dataOff tgtH + tc.start + tc.compLen) ∨
    mayWrite tgtH valid rest (k + 1) i

/-- marks that are 1 stay 1, and marks only change at positions ≥ k (the loop's current chunk) -/
theorem writeAndVerify_marks (H : HashFn) (srcF : Bytes) (src tgtH : Hdr) (t : Tgt) (k : Nat) (sc tc : Chunk) (j : Nat)
    (hj : j ≠ k) : (writeAndVerify H srcF src tgtH t k sc tc).valid.getD j 0 = t.valid.getD j 0 := by
  unfold writeAndVerify
  simp only
  split
  · rfl
  · split <;> simp [List.getD, List.getElem?_set, hj.symm]

/-- **confinement**: `zck_copy_chunks` changes no byte of the target outside the extents of the
chunks that were not marked valid before — in particular not the header and not a valid chunk -/
theorem copyLoop_confined (H : HashFn) (srcF : Bytes) (src tgtH : Hdr) :
    ∀ (cs : List Chunk) (k : Nat) (t : Tgt) (i : Nat), ¬ mayWrite tgtH t.valid cs k i →
      (copyLoop H srcF src tgtH cs k t).f.getD i 0 = t.f.getD i 0
  | [], _, t, _, _ => rfl
  | tc :: rest, k, t, i, hno => by
    unfold copyLoop
    simp only
    unfold mayWrite at hno
    simp only [not_or, not_and] at hno
    obtain ⟨h1, h2⟩ := hno
    -- the step on chunk k
    have hstep : ∀ t' : Tgt, (t' = t ∨ ∃ sc, sc.len = tc.len ∧ sc.compLen = tc.compLen ∧ t.valid.getD k 0 ≠ 1 ∧
        t' = writeAndVerify H srcF src tgtH t k sc tc) →
        t'.f.getD i 0 = t.f.getD i 0 ∧ (∀ j, j ≠ k → t'.valid.getD j 0 = t.valid.getD j 0) := by
      intro t' ht'
      rcases ht' with rfl | ⟨sc, _, hcl, hnv, rfl⟩
      · exact ⟨rfl, fun _ _ => rfl⟩
      · refine ⟨?_, fun j hj => writeAndVerify_marks H srcF src tgtH t k sc tc j hj⟩
        apply writeAndVerify_confined H srcF src tgtH t k sc tc hcl
        have := h1 hnv
        omega
    -- marks at positions > k are unchanged by the step, so `mayWrite` for the rest is unchanged
    have hrest : ∀ t' : Tgt, (∀ j, j ≠ k → t'.valid.getD j 0 = t.valid.getD j 0) →
        ¬ mayWrite tgtH t'.valid rest (k + 1) i := by
      intro t' hm
      have : ∀ (cs : List Chunk) (m : Nat), k < m → (mayWrite tgtH t'.valid cs m i ↔ mayWrite tgtH t.valid cs m i) := by
        intro cs
        induction cs with
        | nil => intro m _; rfl
        | cons c cs ih =>
          intro m hm'
          unfold mayWrite
          rw [hm m (by omega), ih (m + 1) (by omega)]
      rw [this rest (k + 1) (by omega)]
      exact h2
    split
    · rw [copyLoop_confined H srcF src tgtH rest (k + 1) t i h2]
    · rename_i hnv
      split
      · rename_i sc _
        split
        · rename_i hsz
          have hs := hstep (writeAndVerify H srcF src tgtH t k sc tc) (Or.inr ⟨sc, hsz.1, hsz.2, hnv, rfl⟩)
          rw [copyLoop_confined H srcF src tgtH rest (k + 1) _ i (hrest _ hs.2), hs.1]
        · rw [copyLoop_confined H srcF src tgtH rest (k + 1) t i h2]
      · rw [copyLoop_confined H srcF src tgtH rest (k + 1) t i h2]

/-- **C08 (confinement)** for `zck_copy_chunks` -/
theorem copy_confined (H : HashFn) (srcF : Bytes) (src tgtH : Hdr) (t : Tgt) (i : Nat)
    (hno : ¬ mayWrite tgtH t.valid tgtH.chunks 0 i) :
    (copyChunks H srcF src tgtH t).f.getD i 0 = t.f.getD i 0 :=
  copyLoop_confined H srcF src tgtH tgtH.chunks 0 t i hno

/-- **a source chunk is used only when checksum, stored size and uncompressed size all match**
(by construction of the loop: the lookup is by checksum, the two size tests guard the copy) -/
theorem used_only_if_equal (src : Hdr) (tc sc : Chunk) (h : findSrc src tc.digest = some sc) :
    sc.digest = tc.digest ∧ sc ∈ src.chunks := by
  unfold findSrc at h
  have h1 := List.find?_some h
  exact ⟨by simpa using h1, List.mem_of_find?_eq_some h⟩

/-- **matching by uncompressed checksum** pairs only chunks with equal checksum and length -/
theorem matching_sound (src tgt : Hdr) (valid : List Int) (k : Nat) (tc : Chunk) (v : Int) (s : Nat)
    (hk : tgt.chunks.zipIdx[k]? = some (tc, k))
    (h : (findMatching src tgt valid)[k]? = some (v, some s)) :
    v = 1 ∧ ∃ sc ∈ src.chunks, sc.number = s ∧ sc.len = tc.len ∧
      ((src.compType = tgt.compType ∧ sc.digest = tc.digest) ∨
       (src.compType ≠ tgt.compType ∧ sc.udigest = tc.udigest ∧ sc.udigest.isSome)) := by
  unfold findMatching at h
  rw [List.getElem?_map, hk] at h
  simp only [Option.map_some, Option.some.injEq] at h
  split at h
  · simp at h
  · by_cases hc : src.compType = tgt.compType
    · simp only [hc, ↓reduceIte] at h
      cases hf : src.chunks.find? (fun c => c.digest == tc.digest) with
      | none => rw [hf] at h; simp at h
      | some sc =>
        rw [hf] at h
        simp only at h
        split at h
        · rename_i hl
          simp only [Prod.mk.injEq, Option.some.injEq] at h
          exact ⟨h.1.symm, sc, List.mem_of_find?_eq_some hf, h.2, hl,
            Or.inl ⟨hc, by simpa using List.find?_some hf⟩⟩
        · simp at h
    · simp only [hc, ↓reduceIte] at h
      by_cases hu : src.flags / 4 % 2 = 1 ∧ tgt.flags / 4 % 2 = 1
      · simp only [hu, and_self, ↓reduceIte] at h
        cases hf : src.chunks.find? (fun c => decide ((c.udigest == tc.udigest) = true ∧ c.udigest.isSome = true)) with
        | none => rw [hf] at h; simp at h
        | some sc =>
          rw [hf] at h
          simp only at h
          split at h
          · rename_i hl
            simp only [Prod.mk.injEq, Option.some.injEq] at h
            have hp := List.find?_some hf
            simp only [decide_eq_true_eq, beq_iff_eq] at hp
            exact ⟨h.1.symm, sc, List.mem_of_find?_eq_some hf, h.2, hl, Or.inr ⟨hc, hp.1, hp.2⟩⟩
          · simp at h
      · simp only [hu, ↓reduceIte] at h
        simp at h

end Zck.C08
