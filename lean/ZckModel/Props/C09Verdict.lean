/-
C09 — the overall verdict of the validity scan (`scan_verdict`): success exactly when every chunk was marked valid by the chunk
loop and the bytes of the whole data section hash to the data checksum; all chunks marked failed when only the data checksum
fails.  From `scanLoop_allGood` (the loop's flag = every scanned chunk marked 1) and `scanLoop_full` (when every chunk was marked
valid every read was complete, so the running checksum was fed exactly the data section).
-/
import ZckModel.Props.C09Scan
namespace Zck.C09
open Zck Zck.Format Zck.Reader Zck.C04

/-- the chunk loop's "all good" flag is the conjunction of its start value and "every scanned chunk was marked 1" -/
theorem scanLoop_allGood (H : HashFn) (f : Bytes) (hdr : Hdr) (useFull : Bool) (hdet : hdr.detached = false) :
    ∀ (cs : List Chunk) (k pos : Nat) (full : Option Bytes) (valid : List Int) (ag : Bool), k + cs.length ≤ valid.length →
      ((scanLoop H f hdr useFull cs k pos full valid ag).2.2.2 = true ↔
        (ag = true ∧ ∀ i, i < cs.length → (scanLoop H f hdr useFull cs k pos full valid ag).2.2.1.getD (k + i) 0 = 1)) := by
  intro cs
  induction cs with
  | nil => intro k pos full valid ag _; simp [scanLoop]
  | cons ch rest ih =>
    intro k pos full valid ag hl
    simp only [List.length_cons] at hl
    unfold scanLoop
    by_cases hfirst : k = 0 ∧ ch.len = 0
    · rw [if_pos hfirst]
      simp only [hdet, Bool.false_eq_true, ↓reduceIte]
      have hih := ih (k + 1) pos full (setValid valid 0 1) ag (by simp only [setValid, List.length_set]; omega)
      rw [hih]
      constructor
      · rintro ⟨h1, h2⟩
        refine ⟨h1, ?_⟩
        intro i hi
        cases i with
        | zero =>
          rw [scanLoop_keep H f hdr useFull rest (k + 1) _ _ _ _ (k + 0) (by omega), getD_setValid]
          rw [if_pos ⟨by omega, by omega⟩]
        | succ i' =>
          have := h2 i' (by simpa using hi)
          rw [show k + (i' + 1) = k + 1 + i' by omega]; exact this
      · rintro ⟨h1, h2⟩
        refine ⟨h1, ?_⟩
        intro i hi
        have := h2 (i + 1) (by simp only [List.length_cons]; omega)
        rw [show k + 1 + i = k + (i + 1) by omega]; exact this
    · rw [if_neg hfirst]
      simp only [hdet, Bool.false_eq_true, ↓reduceIte]
      generalize hv : scanValue H hdr ch (readPieces f pos ch.compLen).1 (readPieces f pos ch.compLen).2.2 = v
      have hih := ih (k + 1) (readPieces f pos ch.compLen).2.1 (if useFull = true then hashUpd full (readPieces f pos ch.compLen).1 else full)
        (setValid valid k v) (ag && decide (v = 1)) (by simp only [setValid, List.length_set]; omega)
      rw [hih]
      have hk : (scanLoop H f hdr useFull rest (k + 1) (readPieces f pos ch.compLen).2.1
          (if useFull = true then hashUpd full (readPieces f pos ch.compLen).1 else full) (setValid valid k v) (ag && decide (v = 1))).2.2.1.getD (k + 0) 0 = v := by
        rw [scanLoop_keep H f hdr useFull rest (k + 1) _ _ _ _ (k + 0) (by omega), getD_setValid]
        rw [if_pos ⟨by omega, by omega⟩]
      constructor
      · rintro ⟨h1, h2⟩
        simp only [Bool.and_eq_true, decide_eq_true_eq] at h1
        refine ⟨h1.1, ?_⟩
        intro i hi
        cases i with
        | zero => rw [hk]; exact h1.2
        | succ i' =>
          have := h2 i' (by simpa using hi)
          rw [show k + (i' + 1) = k + 1 + i' by omega]; exact this
      · rintro ⟨h1, h2⟩
        have h0 := h2 0 (by simp)
        rw [hk] at h0
        refine ⟨by simp [h1, h0], ?_⟩
        intro i hi
        have := h2 (i + 1) (by simp only [List.length_cons]; omega)
        rw [show k + 1 + i = k + (i + 1) by omega]; exact this

theorem scanValue_one_complete (H : HashFn) (hdr : Hdr) (ch : Chunk) (got : Bytes) (tr : Bool)
    (h : scanValue H hdr ch got tr = 1) : tr = false := by
  unfold scanValue at h
  cases hh : H hdr.chunkHashType got with
  | none => rw [hh] at h; simp at h
  | some d =>
    rw [hh] at h
    simp only at h
    cases tr with
    | false => rfl
    | true => simp at h

/-- when every scanned chunk was marked valid, every read was complete: the running whole-data checksum has been fed exactly
the bytes of the data section covered by these chunks -/
theorem scanLoop_full (H : HashFn) (f : Bytes) (hdr : Hdr) (hdet : hdr.detached = false) :
    ∀ (cs : List Chunk) (k pos : Nat) (full : Option Bytes) (valid : List Int) (ag : Bool), k + cs.length ≤ valid.length →
      (k = 0 → ∀ c, cs.head? = some c → c.len = 0 → c.compLen = 0) →
      (∀ i, i < cs.length → (scanLoop H f hdr true cs k pos full valid ag).2.2.1.getD (k + i) 0 = 1) →
      (scanLoop H f hdr true cs k pos full valid ag).2.1 = full.map (· ++ fileRead f pos (C13.sumLen cs)) := by
  intro cs
  induction cs with
  | nil =>
    intro k pos full valid ag _ _ _
    simp only [scanLoop, C13.sumLen, fileRead, List.take_zero, List.append_nil]
    cases full <;> rfl
  | cons ch rest ih =>
    intro k pos full valid ag hl hdict hall
    simp only [List.length_cons] at hl
    unfold scanLoop at hall ⊢
    by_cases hfirst : k = 0 ∧ ch.len = 0
    · rw [if_pos hfirst] at hall ⊢
      simp only [hdet, Bool.false_eq_true, ↓reduceIte] at hall ⊢
      have hcz : ch.compLen = 0 := hdict hfirst.1 ch rfl hfirst.2
      rw [ih (k + 1) pos full (setValid valid 0 1) ag (by simp only [setValid, List.length_set]; omega) (by omega)
        (fun i hi => by have := hall (i + 1) (by simp only [List.length_cons]; omega); rw [show k + 1 + i = k + (i + 1) by omega]; exact this)]
      simp only [C13.sumLen, hcz, Nat.zero_add]
    · rw [if_neg hfirst] at hall ⊢
      simp only [hdet, Bool.false_eq_true, ↓reduceIte] at hall ⊢
      generalize hv : scanValue H hdr ch (readPieces f pos ch.compLen).1 (readPieces f pos ch.compLen).2.2 = v at hall ⊢
      have hk : (scanLoop H f hdr true rest (k + 1) (readPieces f pos ch.compLen).2.1
          (hashUpd full (readPieces f pos ch.compLen).1) (setValid valid k v) (ag && decide (v = 1))).2.2.1.getD (k + 0) 0 = v := by
        rw [scanLoop_keep H f hdr true rest (k + 1) _ _ _ _ (k + 0) (by omega), getD_setValid]
        rw [if_pos ⟨by omega, by omega⟩]
      have hv1 : v = 1 := by rw [← hk]; exact hall 0 (by simp)
      rw [hv1] at hv
      have htr := scanValue_one_complete H hdr ch _ _ hv
      have hgot : (readPieces f pos ch.compLen).1 = fileRead f pos ch.compLen := rfl
      have hpos' : (readPieces f pos ch.compLen).2.1 = pos + (fileRead f pos ch.compLen).length := rfl
      have hlen : (fileRead f pos ch.compLen).length = ch.compLen := by
        have h3 : (readPieces f pos ch.compLen).2.2 = decide ((fileRead f pos ch.compLen).length < ch.compLen) := rfl
        rw [htr] at h3
        have hle : (fileRead f pos ch.compLen).length ≤ ch.compLen := by
          unfold fileRead; simp only [List.length_take]; exact Nat.min_le_left _ _
        have : ¬ ((fileRead f pos ch.compLen).length < ch.compLen) := by
          intro hlt; simp [hlt] at h3
        omega
      rw [ih (k + 1) _ _ (setValid valid k v) _ (by simp only [setValid, List.length_set]; omega) (by omega)
        (fun i hi => by have := hall (i + 1) (by simp only [List.length_cons]; omega); rw [show k + 1 + i = k + (i + 1) by omega]; exact this)]
      rw [hgot, hpos', hlen]
      simp only [C13.sumLen]
      have hsplit : fileRead f pos (ch.compLen + C13.sumLen rest) = fileRead f pos ch.compLen ++ fileRead f (pos + ch.compLen) (C13.sumLen rest) := by
        unfold fileRead
        rw [List.take_add, List.drop_drop]
      rw [hsplit]
      cases full with
      | none => rfl
      | some acc => simp [hashUpd, List.append_assoc]

/-- **C09 (overall verdict)**: for a file with data (not a detached header, no uncompressed-source flag), whatever is on disk:
`zck_validate_checksums` / `zck_find_valid_chunks` report success exactly when EVERY chunk was marked valid by the chunk loop AND
the bytes of the whole data section hash to the header's data checksum; the marks are then those of the chunk loop; if every
chunk matched but the data checksum does not, the verdict is failure and ALL chunks are marked failed; if some chunk did not
match, the verdict is failure and the marks are those of the chunk loop. -/
theorem scan_verdict (H : HashFn) (f : Bytes) (c : Ctx) (hdet : c.hdr.detached = false) (he : c.err = false)
    (h4 : flag4 c = false) (hlen : c.valid.length = c.hdr.chunks.length)
    (hdict : ∀ d, c.hdr.chunks.head? = some d → d.len = 0 → d.compLen = 0) :
    let marks := (scanLoop H f c.hdr true c.hdr.chunks 0 (dataOff c) (some []) c.valid true).2.2.1
    let allOne := ∀ i, i < c.hdr.chunks.length → marks.getD i 0 = 1
    let dataOk := H c.hdr.hashType (fileRead f (dataOff c) (C13.sumLen c.hdr.chunks)) = some c.hdr.dataDigest
    ((validateChecksums H f c).1 = 1 ↔ (allOne ∧ dataOk)) ∧
    (allOne → dataOk → (validateChecksums H f c).2.valid = marks) ∧
    (allOne → ¬ dataOk → (validateChecksums H f c).1 = -1 ∧ (validateChecksums H f c).2.valid = marks.map (fun _ => -1)) ∧
    (¬ allOne → (validateChecksums H f c).1 = -1 ∧ (validateChecksums H f c).2.valid = marks) := by
  intro marks allOne dataOk
  have hag := scanLoop_allGood H f c.hdr true hdet c.hdr.chunks 0 (dataOff c) (some []) c.valid true (by omega)
  simp only [Nat.zero_add, true_and] at hag
  have hfull : allOne → (scanLoop H f c.hdr true c.hdr.chunks 0 (dataOff c) (some []) c.valid true).2.1 =
      some (fileRead f (dataOff c) (C13.sumLen c.hdr.chunks)) := by
    intro ha
    have := scanLoop_full H f c.hdr hdet c.hdr.chunks 0 (dataOff c) (some []) c.valid true (by omega) (fun _ => hdict)
      (by intro i hi; simpa using ha i hi)
    simpa using this
  have huf : (decide ¬ flag4 c = true) = true := by simp [h4]
  unfold validateChecksums
  simp only [he, Bool.false_eq_true, ↓reduceIte, h4, hdet, or_self, not_false_eq_true, decide_true]
  generalize hsl : scanLoop H f c.hdr true c.hdr.chunks 0 (dataOff c) (some []) c.valid true = sl at hag hfull marks allOne
  obtain ⟨p, full, valid, ag⟩ := sl
  simp only at hag hfull ⊢
  have hm : marks = valid := by simp only [marks, hsl]
  have hao : allOne ↔ ∀ i, i < c.hdr.chunks.length → valid.getD i 0 = 1 := by simp only [allOne, hm]
  by_cases hall : allOne
  · have hagt : ag = true := hag.mpr (hao.mp hall)
    have hf := hfull hall
    subst hagt
    subst hf
    by_cases hd : dataOk
    · have hb : (H c.hdr.hashType (fileRead f (dataOff c) (C13.sumLen c.hdr.chunks)) == some c.hdr.dataDigest) = true := by
        simpa [dataOk] using hd
      simp only [hb, ↓reduceIte]
      exact ⟨⟨fun _ => ⟨hall, hd⟩, fun _ => trivial⟩, fun _ _ => hm.symm, fun _ h => absurd hd h, fun h => absurd hall h⟩
    · have hb : (H c.hdr.hashType (fileRead f (dataOff c) (C13.sumLen c.hdr.chunks)) == some c.hdr.dataDigest) = false := by
        simpa [dataOk] using hd
      simp only [hb, Bool.false_eq_true, ↓reduceIte]
      refine ⟨⟨fun h => by simp at h, fun h => absurd h.2 hd⟩, fun _ h => absurd h hd, fun _ _ => ⟨trivial, by rw [hm]⟩, fun h => absurd hall h⟩
  · have hagf : ag = false := by
      cases ag with
      | false => rfl
      | true => exact absurd (hao.mpr (hag.mp rfl)) hall
    subst hagf
    simp only [Bool.false_eq_true, ↓reduceIte]
    exact ⟨⟨fun h => by simp at h, fun h => absurd h.1 hall⟩, fun h => absurd h hall, fun h => absurd h hall, fun _ => ⟨trivial, hm.symm⟩⟩

/-- **C09 (detached header)**: only the first entry (the dictionary) is scanned: every other mark is left as it was, and the
verdict does not involve the data checksum -/
theorem scan_detached (H : HashFn) (f : Bytes) (hdr : Hdr) (useFull : Bool) (hdet : hdr.detached = true)
    (ch : Chunk) (rest : List Chunk) (pos : Nat) (full : Option Bytes) (valid : List Int) (ag : Bool) (j : Nat) (hj : j ≠ 0) :
    (scanLoop H f hdr useFull (ch :: rest) 0 pos full valid ag).2.2.1.getD j 0 = valid.getD j 0 := by
  unfold scanLoop
  split
  · simp only [hdet, ↓reduceIte]
    rw [getD_setValid, if_neg (by omega)]
  · simp only [hdet, ↓reduceIte]
    rw [getD_setValid, if_neg (by omega)]

theorem verdict_detached (H : HashFn) (f : Bytes) (c : Ctx) (hdet : c.hdr.detached = true) (he : c.err = false) :
    (validateChecksums H f c).1 = 1 ∨ (validateChecksums H f c).1 = -1 := by
  unfold validateChecksums
  simp only [he, Bool.false_eq_true, ↓reduceIte, hdet, or_true]
  split <;> simp

end Zck.C09
