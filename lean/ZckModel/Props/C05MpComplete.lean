/-
C05 — completeness of the MULTIPART path, whole response in one call: a multipart/byteranges body whose parts carry, in
request order, the stored bytes of consecutive groups of the requested chunks (one part per coalesced range), each part
header well formed for the pattern, makes every requested chunk valid and changes no other mark.  Built from
`multipart_whole` (the framing is transparent) and `complete_piece` (a run of requested chunks with more to come).
-/
import ZckModel.Props.C05Multipart

namespace Zck.C05
open Zck Zck.Format Zck.Dl Zck.Copy

/-- a download context in which nothing has been received yet -/
structure Fresh (st : St) : Prop where
  err : st.err = false
  wic : st.writeInChunk = 0
  tgt : st.tgtCheck = none
  cn  : st.curNull = true
  dcd : st.dlChunkData = 0

theorem bump_zero (x : Nat × St) : bump 0 x = x := by
  unfold bump
  split
  · rename_i h; obtain ⟨a, b⟩ := x; simp only at h; subst h; rfl
  · simp

/-- the context after `dl_write_range` has opened the first entry of the request -/
def opened (e : Env) (st : St) (rc : RChunk) (tc : Chunk) : St :=
  { st with tgtCheck := some rc.tgt, hash := some [], writeInChunk := rc.compLen, pos := e.dataOff + tc.start,
            cur := 1, curNull := decide (1 ≥ e.ridx.length) }

/-- the first call on a fresh context opens the first entry of the request and carries on with the same bytes -/
theorem dwr_fresh (e : Env) (st : St) (rc : RChunk) (tl : List RChunk) (tc : Chunk) (x : Bytes) (F : Nat)
    (hf : Fresh st) (hr : e.ridx = rc :: tl) (hs : rc.start = 0) (hnv : st.valid.getD rc.tgt 0 ≠ 1)
    (htc : e.hdr.chunks[rc.tgt]? = some tc) (hsz : rc.compLen = tc.compLen) (hpos : 0 < rc.compLen) (hx : x ≠ []) :
    dlWriteRange e (F + 1) st x = dlWriteRange e F (opened e st rc tc) x := by
  have hrne : e.ridx.isEmpty = false := by rw [hr]; rfl
  rw [dwr_step e F st st x 0 hf.err hrne (dlWrite_closed st x hf.wic)]
  unfold cont
  simp only [hf.wic, ↓reduceIte]
  have hsel : dlSelect e st = (true, opened e st rc tc) := by
    unfold dlSelect dlVerify dlOpen
    simp only [hf.tgt, hf.cn, true_or, ↓reduceIte, List.drop_zero, not_true_eq_false]
    rw [hr, findNext_head e _ rc tl 0 tc (by simp only; rw [hf.dcd, hs]) (by simp only; exact hnv) htc hsz]
    simp only [htc, opened, hr, Nat.zero_add]
  rw [hsel]
  simp only [not_true_eq_false, ↓reduceIte]
  have hxl : 0 < x.length := List.length_pos_iff.mpr hx
  rw [if_pos ⟨by simp only [opened]; exact hpos, hxl⟩, bump_zero, List.drop_zero]

theorem openAt_opened (e : Env) (st : St) (rc : RChunk) (tc : Chunk) (hf : Fresh st) (hs : rc.start = 0) :
    OpenAt e (opened e st rc tc) [] rc :=
  ⟨hf.err, rfl, rfl, rfl, by simp only [opened]; rw [hf.dcd, hs], rfl, rfl⟩

/-- a running index cut in two: the second half is a running index from its head's offset, which lies beyond every entry of
the first half -/
theorem runIdx_append_lt : ∀ (a : List RChunk) (m : RChunk) (ms : List RChunk) (s : Nat), RunIdx s (a ++ m :: ms) →
    RunIdx m.start (m :: ms) ∧ ∀ r ∈ a, r.start < m.start
  | [], m, ms, s, h => by
    refine ⟨?_, fun r hr => by simp at hr⟩
    have h' : RunIdx s (m :: ms) := h
    rw [← h'.1] at h'
    exact h'
  | x :: a, m, ms, s, h => by
    have h' : RunIdx s (x :: (a ++ m :: ms)) := h
    obtain ⟨i1, i2⟩ := runIdx_append_lt a m ms _ h'.2.2
    refine ⟨i1, ?_⟩
    intro r hr
    rcases List.mem_cons.mp hr with rfl | hr'
    · have := runIdx_later (a ++ m :: ms) _ h'.2.2 m (by simp)
      have h1 := h'.1
      have h2 := h'.2.1
      omega
    · exact i2 r hr'

/-- **the parts one after the other**: the first chunk of the first group is open; each part's payload is the stored bytes of
its group.  Every payload is taken completely, every chunk of every group ends up valid, no other mark changes. -/
theorem parts_complete (e : Env) (stored : Nat → Bytes) : ∀ (gs : List (List RChunk)) (ps : List Part) (pre : List RChunk)
    (rc : RChunk) (rest : List RChunk) (st : St),
    ps.map (·.payload) = ((rc :: rest) :: gs).map (payloadOf stored) → (∀ g ∈ gs, g ≠ []) →
    e.ridx = pre ++ ((rc :: rest) :: gs).flatten → RunIdx rc.start (((rc :: rest) :: gs).flatten) →
    (∀ r ∈ ((rc :: rest) :: gs).flatten, EntryOk e stored r ∧ r.tgt < st.valid.length) →
    (∀ r ∈ rest ++ gs.flatten, st.valid.getD r.tgt 0 ≠ 1) → ((((rc :: rest) :: gs).flatten).map (·.tgt)).Nodup →
    (∀ r ∈ pre, r.start < rc.start) → OpenAt e st pre rc →
    Taken e st ps ∧ (∀ r ∈ ((rc :: rest) :: gs).flatten, (dwrParts e st ps).valid.getD r.tgt 0 = 1) ∧
    (∀ k, (∀ r ∈ ((rc :: rest) :: gs).flatten, r.tgt ≠ k) → (dwrParts e st ps).valid.getD k 0 = st.valid.getD k 0) ∧
    (dwrParts e st ps).valid.length = st.valid.length
  | [], ps, pre, rc, rest, st, hpay, _, hridx, hrun, hent, hnv, hnd, hpre, ho => by
    obtain ⟨p, rfl⟩ : ∃ p, ps = [p] := by
      cases ps with
      | nil => simp at hpay
      | cons p t =>
        cases t with
        | nil => exact ⟨p, rfl⟩
        | cons q t => simp at hpay
    · simp only [List.map_cons, List.map_nil, List.cons.injEq, and_true] at hpay
      simp only [List.flatten_cons, List.flatten_nil, List.append_nil] at hridx hrun hent hnv hnd ⊢
      have h := complete_piece e stored rest pre [] rc st (2 * p.payload.length + 2)
        (by simpa using hridx) (by simpa using hrun) (by simpa using hent) (by simpa using hnv) (by simpa using hnd) hpre ho
        (by rw [hpay]; omega)
      rw [← hpay] at h
      obtain ⟨i1, i2, _, i4, i5, _⟩ := h
      exact ⟨⟨i1, trivial⟩, i2, i4, i5⟩
  | g2 :: gs, ps, pre, rc, rest, st, hpay, hgne, hridx, hrun, hent, hnv, hnd, hpre, ho => by
    cases ps with
    | nil => simp at hpay
    | cons p ps' =>
      simp only [List.map_cons, List.cons.injEq] at hpay
      obtain ⟨hp1, hp2⟩ := hpay
      match g2, hgne g2 List.mem_cons_self with
      | m :: ms, _ =>
        have hfl : ((rc :: rest) :: (m :: ms) :: gs).flatten = rc :: rest ++ (m :: (ms ++ gs.flatten)) := by simp
        rw [hfl] at hridx hrun hent hnd
        have hnv' : ∀ r ∈ rest ++ (m :: (ms ++ gs.flatten)), st.valid.getD r.tgt 0 ≠ 1 := by
          intro r hr; apply hnv r; simpa using hr
        have h := complete_piece e stored rest pre (m :: (ms ++ gs.flatten)) rc st (2 * p.payload.length + 2)
          (by rw [hridx]; simp) hrun hent hnv' hnd hpre ho (by rw [hp1]; omega)
        rw [← hp1] at h
        obtain ⟨i1, i2, _, i4, i5, i6⟩ := h
        have ho' := i6 m (ms ++ gs.flatten) rfl
        generalize hout : dlWriteRange e (2 * p.payload.length + 2) st p.payload = out at i1 i2 i4 i5 ho'
        -- the rest of the request
        have hsplit := runIdx_append_lt (rc :: rest) m (ms ++ gs.flatten) rc.start (by simpa using hrun)
        have hfl2 : ((m :: ms) :: gs).flatten = m :: (ms ++ gs.flatten) := by simp
        have hndl : ((rc :: rest).map (·.tgt) ++ (m :: (ms ++ gs.flatten)).map (·.tgt)).Nodup := by
          have := hnd; simpa using this
        have hdisj : ∀ r ∈ m :: (ms ++ gs.flatten), ∀ r' ∈ rc :: rest, r'.tgt ≠ r.tgt := by
          intro r hr r' hr' heq
          have := (List.nodup_append.mp hndl).2.2 r'.tgt (List.mem_map_of_mem hr') r.tgt (List.mem_map_of_mem hr)
          exact this heq
        have ih := parts_complete e stored gs ps' (pre ++ rc :: rest) m ms out.2
          (by simpa using hp2) (fun g hg => hgne g (List.mem_cons_of_mem _ hg))
          (by rw [hridx, hfl2]; simp) (by rw [hfl2]; exact hsplit.1)
          (by rw [hfl2]; intro r hr; have := hent r (List.mem_append_right _ hr)
              exact ⟨this.1, by rw [i5]; exact this.2⟩)
          (by intro r hr
              have hr2 : r ∈ m :: (ms ++ gs.flatten) := List.mem_cons_of_mem _ hr
              rw [i4 r.tgt (fun r' hr' => hdisj r hr2 r' hr')]
              apply hnv r; rw [hfl2]; exact List.mem_append_right _ hr2)
          (by rw [hfl2]; exact (List.nodup_append.mp hndl).2.1)
          (by intro r hr
              rcases List.mem_append.mp hr with h1 | h1
              · have := hpre r h1
                have := hsplit.2 rc List.mem_cons_self
                omega
              · exact hsplit.2 r h1)
          ho'
        obtain ⟨j1, j2, j3, j4⟩ := ih
        simp only [Taken, dwrParts, hout]
        refine ⟨⟨i1, j1⟩, ?_, ?_, by rw [j4, i5]⟩
        · intro r hr
          rw [hfl] at hr
          rcases List.mem_append.mp hr with h1 | h1
          · by_cases hin : ∃ r' ∈ ((m :: ms) :: gs).flatten, r'.tgt = r.tgt
            · obtain ⟨r', hr', heq⟩ := hin
              rw [← heq]; exact j2 r' hr'
            · rw [j3 r.tgt (fun r' hr' heq => hin ⟨r', hr', heq⟩)]; exact i2 r h1
          · exact j2 r (by rw [hfl2]; exact h1)
        · intro k hk
          rw [hfl] at hk
          rw [j3 k (fun r hr => hk r (by rw [hfl2] at hr; exact List.mem_append_right _ hr)),
              i4 k (fun r hr => hk r (List.mem_append_left _ hr))]

/-- the payloads of a well-formed multipart response, handed to `dl_write_range` one after the other from a fresh context: each
is taken completely, every requested chunk ends up marked valid, no other mark changes -/
theorem multipart_taken (e : Env) (stored : Nat → Bytes) (st : St) (pp : Bytes) (ps : List Part) (gs : List (List RChunk))
    (hf : Fresh st)
    (hpay : ps.map (·.payload) = gs.map (payloadOf stored)) (hgne : ∀ g ∈ gs, g ≠ []) (hne : gs ≠ [])
    (hridx : e.ridx = gs.flatten) (hrun : RunIdx 0 e.ridx)
    (hent : ∀ r ∈ e.ridx, EntryOk e stored r ∧ r.tgt < st.valid.length ∧ st.valid.getD r.tgt 0 ≠ 1)
    (hnd : (e.ridx.map (·.tgt)).Nodup) (hok : ∀ p ∈ ps, PartOk e.rx pp p) :
    ps ≠ [] ∧ Taken e st ps ∧ (∀ r ∈ e.ridx, (dwrParts e st ps).valid.getD r.tgt 0 = 1) ∧
    (∀ k, (∀ r ∈ e.ridx, r.tgt ≠ k) → (dwrParts e st ps).valid.getD k 0 = st.valid.getD k 0) := by
  match gs, hne, hgne with
  | g :: gs', _, hgne =>
    match g, hgne g List.mem_cons_self with
    | rc :: rest, _ =>
      match ps, hpay with
      | p :: ps', hpay =>
        have hpay0 := hpay
        simp only [List.map_cons, List.cons.injEq] at hpay
        obtain ⟨hp1, _⟩ := hpay
        have hrc : rc ∈ e.ridx := by rw [hridx]; simp
        obtain ⟨⟨tc, htc, hsz, hlen, hhash⟩, hklt, hnv0⟩ := hent rc hrc
        have hrun' := hrun
        rw [hridx] at hrun'
        have hfl : ((rc :: rest) :: gs').flatten = rc :: (rest ++ gs'.flatten) := by simp
        rw [hfl] at hrun'
        have hs : rc.start = 0 := hrun'.1
        have hpos : 0 < rc.compLen := hrun'.2.1
        have hpne : p.payload ≠ [] := (hok p List.mem_cons_self).nonempty
        -- the first call opens the first entry
        have hfirst : dlWriteRange e (2 * p.payload.length + 2) st p.payload =
            dlWriteRange e (2 * p.payload.length + 2) (opened e st rc tc) p.payload := by
          rw [dwr_fresh e st rc (rest ++ gs'.flatten) tc p.payload (2 * p.payload.length + 1) hf (by rw [hridx, hfl]) hs hnv0 htc hsz
            hpos hpne]
          have hw : (opened e st rc tc).writeInChunk = rc.compLen := rfl
          apply dwr_fuel
          · unfold dneed; rw [hw, if_neg (by omega)]; omega
          · unfold dneed; rw [hw, if_neg (by omega)]; omega
        have hT : Taken e st (p :: ps') = Taken e (opened e st rc tc) (p :: ps') := by simp only [Taken]; rw [hfirst]
        have hD : dwrParts e st (p :: ps') = dwrParts e (opened e st rc tc) (p :: ps') := by simp only [dwrParts]; rw [hfirst]
        have hvo : (opened e st rc tc).valid = st.valid := rfl
        have hpc := parts_complete e stored gs' (p :: ps') [] rc rest (opened e st rc tc) hpay0
          (fun g hg => hgne g (List.mem_cons_of_mem _ hg)) (by rw [hridx]; rfl) (by rw [hs, hfl]; exact hrun')
          (by intro r hr; rw [hvo]; have := hent r (by rw [hridx]; exact hr); exact ⟨this.1, this.2.1⟩)
          (by intro r hr; rw [hvo]; exact (hent r (by rw [hridx, hfl]; exact List.mem_cons_of_mem _ hr)).2.2)
          (by rw [← hridx]; exact hnd) (by intro r hr; simp at hr) (openAt_opened e st rc tc hf hs)
        rw [← hT, ← hD, hvo, ← hridx] at hpc
        obtain ⟨k1, k2, k3, _⟩ := hpc
        exact ⟨by simp, k1, k2, k3⟩

/-- **C05 (completeness, multipart path, one call)**: a fresh download context that has learnt the boundary, a request whose
entries match the index and are not yet valid, and a multipart body whose parts carry — in request order — the server's stored
bytes of consecutive groups of the requested chunks (each hashing to its index checksum), every part header well formed for the
part pattern, followed by a trailer (the closing delimiter) that holds no further part header: `multipart_extract` accepts the
body, every requested chunk ends up marked valid, no other mark changes. -/
theorem multipart_complete (e : Env) (stored : Nat → Bytes) (st : St) (pp : Bytes) (ps : List Part) (gs : List (List RChunk))
    (trailer : Bytes) (hf : Fresh st) (hmp : st.mp = {}) (hrx : st.dlRx = .ok pp)
    (hpay : ps.map (·.payload) = gs.map (payloadOf stored)) (hgne : ∀ g ∈ gs, g ≠ []) (hne : gs ≠ [])
    (hridx : e.ridx = gs.flatten) (hrun : RunIdx 0 e.ridx)
    (hent : ∀ r ∈ e.ridx, EntryOk e stored r ∧ r.tgt < st.valid.length ∧ st.valid.getD r.tgt 0 ≠ 1)
    (hnd : (e.ridx.map (·.tgt)).Nodup) (hok : ∀ p ∈ ps, PartOk e.rx pp p) (htr : NoHeader trailer) :
    let out := mpExtract e st (partsBytes ps ++ trailer)
    out.1 = true ∧ (∀ r ∈ e.ridx, out.2.valid.getD r.tgt 0 = 1) ∧
    (∀ k, (∀ r ∈ e.ridx, r.tgt ≠ k) → out.2.valid.getD k 0 = st.valid.getD k 0) := by
  obtain ⟨hpne, k1, k2, k3⟩ := multipart_taken e stored st pp ps gs hf hpay hgne hne hridx hrun hent hnd hok
  intro out
  have hw := multipart_whole e st pp ps trailer hf.err hmp hrx hpne hok htr k1
  have hout : out = mpExtract e st (partsBytes ps ++ trailer) := rfl
  rw [hout, hw]
  refine ⟨rfl, ?_, ?_⟩
  · intro r hr
    simp only
    split
    · exact k2 r hr
    · exact k2 r hr
  · intro k hk
    simp only
    split
    · exact k3 k hk
    · exact k3 k hk

theorem runIdx_pos : ∀ (l : List RChunk) (s : Nat), RunIdx s l → ∀ x ∈ l, 0 < x.compLen
  | [], _, _, x, hx => by simp at hx
  | a :: l, s, hs, x, hx => by
    rcases List.mem_cons.mp hx with rfl | hx'
    · exact hs.2.1
    · exact runIdx_pos l _ hs.2.2 x hx'

/-- **C05 (completeness + verification + confinement, multipart path, one call)**: under the hypotheses of
`multipart_complete` and for a header with non-overlapping extents (`disj_of_open`: every parsed header), after the call every
requested chunk's extent lies inside the target and holds the server's bytes (or a collision of the hash is exhibited), and
every byte outside the extents of the requested chunks is what it was. -/
theorem multipart_complete_bytes (e : Env) (hd : Disj e) (stored : Nat → Bytes) (st : St) (pp : Bytes) (ps : List Part)
    (gs : List (List RChunk)) (trailer : Bytes) (hf : Fresh st) (hmp : st.mp = {}) (hrx : st.dlRx = .ok pp)
    (hpay : ps.map (·.payload) = gs.map (payloadOf stored)) (hgne : ∀ g ∈ gs, g ≠ []) (hne : gs ≠ [])
    (hridx : e.ridx = gs.flatten) (hrun : RunIdx 0 e.ridx)
    (hent : ∀ r ∈ e.ridx, EntryOk e stored r ∧ r.tgt < st.valid.length ∧ st.valid.getD r.tgt 0 ≠ 1)
    (hnd : (e.ridx.map (·.tgt)).Nodup) (hok : ∀ p ∈ ps, PartOk e.rx pp p) (htr : NoHeader trailer) :
    let out := mpExtract e st (partsBytes ps ++ trailer)
    (∀ r ∈ e.ridx, ∃ tc, e.hdr.chunks[r.tgt]? = some tc ∧ ChunkOk e out.2.file tc ∧
      (((out.2.file.drop (e.dataOff + tc.start)).take tc.compLen = stored r.tgt) ∨ Collision e.H e.hdr.chunkHashType)) ∧
    (∀ i, Outside e st.valid i → out.2.file.getD i 0 = st.file.getD i 0) := by
  intro out
  have hc := multipart_complete e stored st pp ps gs trailer hf hmp hrx hpay hgne hne hridx hrun hent hnd hok htr
  have hgv : GV e st.file st.valid out.2 :=
    pres_mpExtract e (gv_preserved e hd st.file st.valid) st _ (gv_init e st hf.tgt hf.wic)
  refine ⟨?_, hgv.1.file⟩
  intro r hr
  obtain ⟨⟨tc, htc, hsz, hlen, hhash⟩, _, hnv⟩ := hent r hr
  have hal : Allowed e st.valid r.tgt := ⟨hnv, r, hr, rfl⟩
  have hok' := hgv.2.ok r.tgt tc htc hal (hc.2.1 r hr)
  refine ⟨tc, htc, hok', ?_⟩
  have hpos : 0 < r.compLen := runIdx_pos _ _ hrun r hr
  unfold ChunkOk at hok'
  rw [if_neg (by omega)] at hok'
  by_cases heq : (out.2.file.drop (e.dataOff + tc.start)).take tc.compLen = stored r.tgt
  · left; exact heq
  · right
    exact ⟨_, _, heq, by rw [hok'.2, hhash], by rw [hok'.2]; rfl⟩

/-- TEST (non-vacuity): the hypotheses of `multipart_complete` hold of the two-part toy body of `C05Multipart` (request: chunks
1 and 2 in two ranges, the server's bytes `[1,2,3]` and `[4,5]`) -/
example : let stored : Nat → Bytes := fun k => if k = 1 then [1, 2, 3] else [4, 5]
    let gs : List (List RChunk) := [[⟨0, 3, 1⟩], [⟨3, 2, 2⟩]]
    Fresh mpSt ∧ mpSt.mp = {} ∧ mpSt.dlRx = .ok [] ∧
    [part1, part2].map (·.payload) = gs.map (payloadOf stored) ∧ (∀ g ∈ gs, g ≠ []) ∧ gs ≠ [] ∧
    mpEnv.ridx = gs.flatten ∧ RunIdx 0 mpEnv.ridx ∧
    (∀ r ∈ mpEnv.ridx, EntryOk mpEnv stored r ∧ r.tgt < mpSt.valid.length ∧ mpSt.valid.getD r.tgt 0 ≠ 1) ∧
    (mpEnv.ridx.map (·.tgt)).Nodup ∧ (∀ p ∈ [part1, part2], PartOk mpEnv.rx [] p) ∧ NoHeader [13, 10, 45, 45] := by
  intro stored gs
  refine ⟨⟨rfl, rfl, rfl, rfl, rfl⟩, rfl, rfl, by decide, by decide, by decide, by decide,
    by simp [mpEnv, C17.toyEnv, mkRidx, RunIdx], ?_, by decide, ?_, fun j r => by simp [scanFrom]⟩
  · intro r hr
    simp only [mpEnv, C17.toyEnv, mkRidx, List.mem_cons, List.mem_nil_iff, or_false] at hr
    rcases hr with rfl | rfl
    · exact ⟨⟨⟨1, [6], none, 3, 3, 0⟩, by decide, rfl, rfl, by decide⟩, by decide, by decide⟩
    · exact ⟨⟨⟨2, [9], none, 2, 2, 3⟩, by decide, rfl, rfl, by decide⟩, by decide, by decide⟩
  · intro p hp
    simp only [List.mem_cons, List.mem_nil_iff, or_false] at hp
    rcases hp with rfl | rfl
    · exact part1_ok
    · exact part2_ok

end Zck.C05
