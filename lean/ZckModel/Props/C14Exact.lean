/-
C14 — a chunk-data request returns exactly the chunk's content (`chunk_data_exact`).

On a well-formed file (`WF`, `Props/C01Stream.lean`), for a context in ANY position state (C14's `getChunkData_history_free`
covers that: offset, pending bytes, current chunk, end-of-data marker, buffers, checksum contexts are all re-established by the
request) with the dictionary loaded or absent and whatever the running data checksum has been fed before, a request for the data
of chunk `k ≥ 1` with a buffer of the chunk's declared size returns that size and exactly the chunk's content: its stored bytes,
verified, decoded with the dictionary the format prescribes.  The proof runs the reader's invariant (`SI`, here with the running
data checksum untracked, `tr = false`) from the state the request sets up, inside chunk `k` with `done k` as the bytes "taken out
before", and reads the result off the accounting equation: what was handed out is a prefix of the file's content of the right
length at the right place.
-/
import ZckModel.Props.C01Stream
import ZckModel.Props.C14

namespace Zck.Stream
open Zck Zck.Format Zck.Reader

section
variable {H : HashFn} {D : Decomp} {f : Bytes} {h : Hdr}

theorem done_split (k : Nat) (hk : k ≤ h.chunks.length) :
    done D f h h.chunks.length = done D f h k ++ doneFrom D f h k (h.chunks.drop k) := by
  unfold done
  rw [List.take_length]
  have := doneFrom_append D f h 0 (h.chunks.take k) (h.chunks.drop k)
  rw [List.take_append_drop, List.length_take, Nat.min_eq_left hk, Nat.zero_add] at this
  exact this

theorem done_prefix (k : Nat) (hk : k ≤ h.chunks.length) : done D f h k <+: done D f h h.chunks.length :=
  ⟨_, (done_split k hk).symm⟩

/-- what was taken out before plus what was handed out is a prefix of the file's content -/
theorem SI.prefix {tr ud n dv sk T c} (s : SI H D f h tr ud n dv sk T c) :
    (sk ++ T) <+: done D f h h.chunks.length := by
  cases s with
  | start s => rw [s.sk0, s.t0]; exact List.nil_prefix
  | fin s => exact ⟨c.dc, s.acct⟩
  | mid k ch s =>
    have hlt := getElem_lt s.chk
    have hacc := s.acct
    -- done k ++ (what was read of chunk k) is a prefix of done (k + 1)
    have hpre : (done D f h k ++ (if h.compType = 0 then fileRead f (dOff h + ch.start) c.dataLoc else [])) <+:
        done D f h h.chunks.length := by
      refine List.IsPrefix.trans ?_ (done_prefix (k + 1) hlt)
      rw [done_succ D f h k ch s.chk]
      refine (List.prefix_append_right_inj _).mpr ?_
      by_cases hz : h.compType = 0
      · rw [if_pos hz]
        unfold contrib
        rw [if_neg s.nsk]
        unfold plainOf stored
        rw [if_pos hz]
        have hl := s.loc
        refine ⟨fileRead f (dOff h + ch.start + c.dataLoc) (ch.compLen - c.dataLoc), ?_⟩
        rw [← fileRead_add]
        congr 1; omega
      · rw [if_neg hz]; exact List.nil_prefix
    rw [← hacc] at hpre
    exact List.IsPrefix.trans ⟨c.dc ++ (if h.compType = 0 then c.data else []), by simp [List.append_assoc]⟩ hpre

/-- the dictionary is loaded, or the file has none; for unit-decoded chunks it is the one the format prescribes -/
structure DictLoaded (D : Decomp) (f : Bytes) (h : Hdr) (c : Ctx) : Prop where
  ready : ∀ d, h.chunks.head? = some d → 0 < d.len → c.dict.isSome = true
  right : h.compType ≠ 0 → c.dict = dictMain D f h

/-- **C14 (content, any buffer up to the chunk's size)**: on a well-formed file a data request for chunk `k ≥ 1` with a buffer of
`n ≤ declared size` bytes returns `n` and exactly the first `n` bytes of the chunk's content, whatever the context did before -/
theorem chunk_data_prefix (wf : WF H D f h) (c : Ctx) (hc : c.hdr = h) (he : c.err = false)
    (hfh : f4 h = true ∨ c.fullHash.isSome = true) (hdl : DictLoaded D f h c)
    (k : Nat) (hk : 1 ≤ k) (ch : Chunk) (hch : h.chunks[k]? = some ch) (n : Nat) (hn : 0 < n) (hnl : n ≤ ch.len) :
    (getChunkData H D f c k n).1 = ⟨n, (contrib D f h k ch).take n⟩ := by
  have hl : ch.len ≠ 0 := by omega
  have hlt := getElem_lt hch
  obtain ⟨d, hd⟩ : ∃ d, h.chunks.head? = some d := by
    cases hx : h.chunks with
    | nil => exact absurd hx wf.nonempty
    | cons x xs => exact ⟨x, rfl⟩
  have hno : ¬ (d.len > 0 ∧ c.dict.isNone = true) := by
    intro ⟨h1, h2⟩
    have := hdl.ready d hd h1
    cases hx : c.dict with
    | none => rw [hx] at this; cases this
    | some x => rw [hx] at h2; cases h2
  unfold getChunkData
  rw [if_neg (by simp [he])]
  have hca : chunkAt c k = some ch := by rw [chunkAt_eq hc]; exact hch
  rw [hca, hc, hd]
  simp only
  rw [if_neg hl, if_neg (fun hx => hno ⟨hx.1, hx.2.1⟩), if_neg hno]
  simp only
  -- the state the request sets up
  generalize hc2 : ({ c with data := [], dataLoc := 0, dataEof := false, dc := [], started := true, pos := dataOff c + ch.start, dataIdx := some k, chunkHash := some [] } : Ctx) = c2
  have hsm : (fileRead f (dOff h) (ch.start + 0)).length = ch.start + 0 := by
    have hend := chunk_end_le wf.run k ch hch
    have : total h = ch.start + (total h - ch.start) := by omega
    have hp := wf.present
    rw [this] at hp
    rw [Nat.add_zero]
    exact (fileRead_full_split f (dOff h) ch.start _ hp).1
  have hmid : Mid H D f h false true n c.dict (done D f h k) ([] ++ []) c2 k ch := by
    rw [← hc2]
    refine ⟨⟨hc, he, rfl, rfl⟩, rfl, rfl, hch, Nat.zero_le _, hsm, ?_, ?_, ?_, ?_, ?_, ?_, ?_, (fun hu => by cases hu), ?_⟩
    · show dataOff c + ch.start = dOff h + ch.start + 0
      simp [dataOff, dOff, hc]
    · show some [] = some (fileRead f (dOff h + ch.start) 0)
      rw [fileRead_zero]
    · rcases hfh with h4 | hs
      · exact Or.inl h4
      · exact Or.inr (by simpa using hs)
    · intro _; show [] = fileRead f (dOff h + ch.start) 0; rw [fileRead_zero]
    · show done D f h k ++ ([] ++ []) ++ [] ++ (if h.compType = 0 then [] else []) =
        done D f h k ++ (if h.compType = 0 then fileRead f (dOff h + ch.start) 0 else [])
      rw [fileRead_zero]; simp
    · intro j cj hj hcj
      exact wf.needs j cj (by omega) hcj
    · intro _ hz
      exact ⟨hdl.right hz, fun h0 => by omega⟩
    · intro hs; have := hs.1; omega
  have hsi : SI H D f h false true n c.dict (done D f h k) ([] ++ []) c2 := .mid k ch hmid
  -- comp_read from there
  unfold compRead
  have e2 : c2.err = false := by rw [← hc2]; exact he
  have s2 : c2.started = true := by rw [← hc2]
  have h2 : c2.hdr = h := by rw [← hc2]; exact hc
  have d2 : c2.dict = c.dict := by rw [← hc2]
  rw [if_neg (by simp [e2]), if_neg (by simp [s2]), if_neg (by omega), h2, hd]
  simp only
  rw [if_neg (by rw [d2]; exact hno)]
  have hgood := readLoop_SI (H := H) (D := D) (f := f) wf.run hn (fun hu => by cases hu) (fuelFor f c2 n) c2 [] false hsi
  have hprog := readLoop_prog wf hn (fun hu => by cases hu) (fuelFor f c2 n) c2 [] (mu_lt_fuel wf hsi) (by simp) hsi
  revert hgood hprog
  generalize readLoop H D f n true (fuelFor f c2 n) c2 [] false = r
  intro hgood hprog
  obtain ⟨ro, c3⟩ := r
  simp only at hgood hprog ⊢
  rcases hgood with hneg | ⟨hret, hsi3, hshort⟩
  · have := hprog.1; omega
  simp only [List.nil_append] at hsi3 hshort
  -- what was handed out sits, in the content of the file, right behind `done k`; so does the content of chunk `k`
  have hp1 : (done D f h k ++ ro.bytes) <+: done D f h h.chunks.length := SI.prefix hsi3
  have hp2 : (done D f h k ++ contrib D f h k ch) <+: done D f h h.chunks.length := by
    rw [← done_succ D f h k ch hch]; exact done_prefix (k + 1) hlt
  have hcl : (contrib D f h k ch).length = ch.len := contrib_len_of_need k ch (wf.needs k ch hlt hch)
  have hle : ro.bytes.length ≤ n := hprog.2
  have hlen : ro.bytes.length = n := by
    rcases Nat.lt_or_ge ro.bytes.length n with hlt' | hge
    · -- a short answer would mean the stream ended inside the file's content
      exfalso
      obtain ⟨hdc, hend⟩ := hshort hlt'
      cases hsi3 with
      | start s3 =>
        rcases hend with he3 | ⟨_, hfi⟩
        · rw [s3.eof] at he3; cases he3
        · have := (firstIdx_none_total hfi).2; omega
      | mid k3 ch3 s3 =>
        rcases hend with he3 | ⟨hi, _⟩
        · rw [s3.eof] at he3; cases he3
        · rw [s3.idx] at hi; cases hi
      | fin s3 =>
        have hacc := s3.acct
        rw [hdc, List.append_nil] at hacc
        obtain ⟨z, hz⟩ := hp2
        rw [← hacc] at hz
        have := congrArg List.length hz
        simp only [List.length_append] at this
        omega
    · omega
  have hpre : ro.bytes <+: contrib D f h k ch := by
    have := List.prefix_of_prefix_length_le hp1 hp2 (by simp only [List.length_append]; omega)
    exact (List.prefix_append_right_inj _).mp this
  have hbytes : ro.bytes = (contrib D f h k ch).take n := by
    rw [← hlen]; exact List.prefix_iff_eq_take.mp hpre
  cases ro with
  | mk ret bytes =>
    simp only at hret hbytes hlen
    rw [hret, hlen, hbytes]

/-- **C14 (content)**: with a buffer of the chunk's declared size the request returns that size and exactly the chunk's content -/
theorem chunk_data_exact (wf : WF H D f h) (c : Ctx) (hc : c.hdr = h) (he : c.err = false)
    (hfh : f4 h = true ∨ c.fullHash.isSome = true) (hdl : DictLoaded D f h c)
    (k : Nat) (hk : 1 ≤ k) (ch : Chunk) (hch : h.chunks[k]? = some ch) (hl : ch.len ≠ 0) :
    (getChunkData H D f c k ch.len).1 = ⟨ch.len, contrib D f h k ch⟩ := by
  have hcl : (contrib D f h k ch).length = ch.len := contrib_len_of_need k ch (wf.needs k ch (getElem_lt hch) hch)
  rw [chunk_data_prefix wf c hc he hfh hdl k hk ch hch ch.len (by omega) (Nat.le_refl _)]
  congr 1
  rw [← hcl, List.take_length]

end
end Zck.Stream
