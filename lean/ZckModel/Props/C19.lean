/-
C19 — Independent contexts do not interfere when used from different threads (PARTIAL).
Proved: (1) on the storage footprint GENERATED from the library objects of this run, the only
process-wide writable storage that is ever written is the logging configuration (`log_level`,
`log_fd`, `callback`), which the property's premise fixes before the threads start; (2) for
operations that do not write shared storage, EVERY interleaving of the threads' operations gives
each thread exactly the local state and outputs it gets when its operations run alone, in order.
Not expressible here and only searched (ThreadSanitizer runs of the real library): races on heap
objects wrongly shared through pointers, and the internals of libc / OpenSSL / zstd.
-/
import ZckModel.Threads

namespace Zck.C19
open Zck Zck.Threads

/-- the logging configuration: written only by the setters the premise puts before thread start -/
def loggingConfig : List String := ["log_level", "log_fd", "callback"]

/-- **footprint**: every object the library keeps in writable, process-wide storage is either part
of the logging configuration or is never written outside its initialiser (a new `static` buffer,
or a write to one of the constant tables, makes this obligation fail) -/
theorem footprint_clean :
    ∀ s ∈ Zck.Gen.writableStatics, s.2.1 ∈ loggingConfig ∨ s.2.2.2 = false := by decide

variable {S L O : Type}

theorem stepThread_other (sh : S) (ls : Locals L O) (t u : Nat) (op : Op S L O) (h : u ≠ t) :
    stepThread sh ls t op u = ls u := by
  unfold stepThread; simp [h]

theorem stepThread_self (sh : S) (ls : Locals L O) (t : Nat) (op : Op S L O) :
    stepThread sh ls t op t = ((op sh (ls t).1).1, (op sh (ls t).1).2 :: (ls t).2) := by
  unfold stepThread; simp

/-- **non-interference**: whatever the interleaving, thread `t` ends with the state and outputs
of running its own operations alone, in program order -/
theorem interleaving_eq_serial (sh : S) : ∀ (ev : List (Nat × Op S L O)) (ls : Locals L O) (t : Nat),
    run sh ls ev t = runSeq sh (ls t) (proj t ev)
  | [], ls, t => rfl
  | (u, op) :: rest, ls, t => by
    simp only [run]
    rw [interleaving_eq_serial sh rest (stepThread sh ls u op) t]
    by_cases h : u = t
    · subst h
      simp [proj, runSeq, stepThread_self]
    · have : t ≠ u := fun e => h e.symm
      simp [proj, h, stepThread_other sh ls u t op this]

/-- two interleavings of the same per-thread programs give every thread the same results -/
theorem any_two_interleavings_agree (sh : S) (ev1 ev2 : List (Nat × Op S L O)) (ls : Locals L O) (t : Nat)
    (h : proj t ev1 = proj t ev2) : run sh ls ev1 t = run sh ls ev2 t := by
  rw [interleaving_eq_serial, interleaving_eq_serial, h]

end Zck.C19
