/-
C02 — the streaming reader against the INDEPENDENT reference decoder (`Format.decodeAny`, written from the format text).

`stream_decodes`: whenever a sequence of reads that all succeed and end short is followed by a successful `zck_close`, the
reference decoder accepts the file behind the same header and its content is exactly the bytes handed out.  The reference
decoder is stricter than the reader in two places the format text is explicit about, which are therefore hypotheses here and
are stated as such: the checksum field of an EMPTY dictionary entry must be all zeros (the reader passes over that entry
without looking at its checksum field), and an entry with declared length 0 must have no stored bytes (the reader lets the
codec decide).  `HashLen` says the hash function returns digests of the size the format gives for the type.
-/
import ZckModel.Props.C02Stream

namespace Zck.Stream
open Zck Zck.Format Zck.Reader

/-- the chunks behind a header, as `Format.decodeAny` decodes them -/
def chunksContent (H : HashFn) (D : Decomp) (f : Bytes) (h : Hdr) : Option Bytes :=
  match h.chunks with
  | [] => none
  | d :: rest =>
    (plainChecked H D h f none d).bind fun dictPlain =>
      (rest.mapM (plainChecked H D h f (if d.len = 0 then none else some dictPlain))).bind fun parts => some parts.flatten

/-- the part of `Format.decodeAny` behind the header parse: the data section is all there, hashes to the data checksum (not
under the uncompressed-source flag), and the chunks decode -/
def contentOf (H : HashFn) (D : Decomp) (f : Bytes) (h : Hdr) : Option Bytes :=
  match slice f (h.lead + h.headerLen) h.dataLen with
  | none => none
  | some body =>
    if h.flags / 4 % 2 = 0 ∧ H h.hashType body ≠ some h.dataDigest then none else chunksContent H D f h

theorem decodeAny_eq (H : HashFn) (D : Decomp) (f : Bytes) (h : Hdr) (hp : parse H f = some h) :
    decodeAny H D f = contentOf H D f h := by
  unfold decodeAny contentOf chunksContent
  rw [hp]
  simp only [Option.bind_eq_bind, Option.bind_some]
  cases slice f (h.lead + h.headerLen) h.dataLen with
  | none => rfl
  | some body =>
    simp only [Option.bind_some]
    by_cases h4 : h.flags / 4 % 2 = 0
    · simp only [h4, ↓reduceIte, true_and]
      cases hH : H h.hashType body with
      | none => simp
      | some dd =>
        simp only [Option.bind_some]
        by_cases he : dd = h.dataDigest
        · subst he; simp only [bne_self_eq_false, Bool.false_eq_true, ↓reduceIte, ne_eq, not_true_eq_false]; cases h.chunks <;> rfl
        · simp [he]
    · simp only [h4, ↓reduceIte, false_and]
      rfl

/-- digests have the size the format gives for their type -/
def HashLen (H : HashFn) : Prop := ∀ t bs d, H t bs = some d → hsize t = some d.length

section
variable {H : HashFn} {D : Decomp} {f : Bytes} {h : Hdr}

theorem slice_of_full (off n : Nat) (hfull : (fileRead f off n).length = n) : slice f off n = some (fileRead f off n) := by
  unfold slice
  by_cases hn : n = 0
  · subst hn; simp [fileRead_zero]
  · rw [if_neg hn]
    have : off + n ≤ f.length := by
      unfold fileRead at hfull
      simp only [List.length_take, List.length_drop] at hfull
      omega
    rw [if_pos this]; rfl

/-- a chunk the reader verified is a chunk the reference decoder verifies, with the same content -/
theorem plainChecked_of_good (hH : HashLen H) (dict : Option Bytes) (ch : Chunk)
    (hz : ch.len = 0 → ch.compLen = 0) (hg : ChunkGood H D f h dict ch) :
    plainChecked H D h f dict ch = some (plainOf D f h dict ch) := by
  obtain ⟨hlen, ⟨d, hHd, hdig⟩, hdec⟩ := hg
  have hsl : slice f (h.lead + h.headerLen + ch.start) ch.compLen = some (stored f h ch) := slice_of_full _ _ hlen
  have hsc : storedChecked H h f ch = some (stored f h ch) := by
    unfold storedChecked
    rw [hsl]
    simp only [Option.bind_eq_bind, Option.bind_some]
    by_cases hc0 : ch.compLen = 0
    · simp only [hc0, ↓reduceIte] at hdig ⊢
      rw [hH _ _ _ hHd]
      simp [hdig]
    · simp only [hc0, ↓reduceIte] at hdig ⊢
      rw [hHd]
      simp [hdig]
  unfold plainChecked
  rw [hsc]
  simp only [Option.bind_eq_bind, Option.bind_some]
  by_cases hl0 : ch.len = 0
  · rw [if_pos hl0, if_pos (hz hl0)]
    have hst : stored f h ch = [] := stored_nil_of_zero ch (hz hl0)
    unfold plainOf
    by_cases hct : h.compType = 0
    · simp [hct, hst]
    · simp only [hct, ↓reduceIte] at hdec ⊢
      obtain ⟨p, hD, hp⟩ := hdec
      rw [hD]
      have : p = [] := List.eq_nil_of_length_eq_zero (by omega)
      simp [this]
  · rw [if_neg hl0]
    unfold plainOf
    by_cases hct : h.compType = 0
    · simp only [hct, ↓reduceIte] at hdec ⊢
      rw [if_neg (by omega)]
    · simp only [hct, ↓reduceIte] at hdec ⊢
      obtain ⟨p, hD, hp⟩ := hdec
      rw [hD]
      simp only [Option.bind_some, Option.getD_some]
      rw [if_neg (by omega)]

/-- the data chunks: what the reader's accounting calls their contents is what the reference decoder computes -/
theorem mapM_rest (hH : HashLen H) (dict : Option Bytes) (hdict : dict = dictMain D f h) :
    ∀ (rest : List Chunk) (j : Nat), 1 ≤ j → (∀ c ∈ rest, c.len = 0 → c.compLen = 0) →
      (∀ i c, rest[i]? = some c → Need H D f h (j + i) c) →
      ∃ parts, rest.mapM (plainChecked H D h f dict) = some parts ∧ parts.flatten = doneFrom D f h j rest
  | [], _, _, _, _ => ⟨[], by simp, by simp [doneFrom]⟩
  | c :: rest, j, hj, hz, hn => by
    have hnc : Need H D f h j c := by simpa using hn 0 c (by simp)
    have hgood : ChunkGood H D f h dict c := by
      rcases hnc with hs | hg
      · have := hs.1; omega
      · have hd : dictFor D f h j = dict := by unfold dictFor; rw [if_neg (by omega), hdict]
        rw [hd] at hg; exact hg
    have h1 := plainChecked_of_good hH dict c (hz c (by simp)) hgood
    obtain ⟨parts, hp, hf⟩ := mapM_rest hH dict hdict rest (j + 1) (by omega)
      (fun c' hc' => hz c' (List.mem_cons_of_mem _ hc'))
      (fun i c' hi => by
        have := hn (i + 1) c' (by simpa using hi)
        rw [show j + (i + 1) = j + 1 + i by omega] at this; exact this)
    refine ⟨plainOf D f h dict c :: parts, ?_, ?_⟩
    · rw [List.mapM_cons, h1]
      simp [hp]
    · simp only [List.flatten_cons, doneFrom, hf]
      congr 1
      unfold contrib
      rw [if_neg (fun hs => by have := hs.1; omega)]
      unfold dictFor
      rw [if_neg (by omega), hdict]

/-- **C02 against the reference decoder**: what `stream_sound` establishes is acceptance by `Format.decodeAny`'s content
function with exactly the bytes handed out -/
theorem decoded_content (hH : HashLen H) (hdl : h.dataLen = total h) (hne : h.chunks ≠ [])
    (hdz : ∀ d, h.chunks.head? = some d → d.compLen = 0 → d.len = 0 → (hsize h.chunkHashType).map zeros = some d.digest)
    (hlz : ∀ c ∈ h.chunks, c.len = 0 → c.compLen = 0)
    (out : Bytes) (hdec : Decoded H D f h out) (hdata : DataOk H f h) :
    contentOf H D f h = some out := by
  unfold contentOf
  have hbody : slice f (h.lead + h.headerLen) h.dataLen = some (fileRead f (dOff h) (total h)) := by
    rw [hdl]; exact slice_of_full _ _ hdec.present
  rw [hbody]
  simp only
  have hnot : ¬ (h.flags / 4 % 2 = 0 ∧ H h.hashType (fileRead f (dOff h) (total h)) ≠ some h.dataDigest) := by
    intro ⟨h4, hne'⟩
    rcases hdata with hf | hf
    · simp [f4] at hf; omega
    · exact hne' hf
  rw [if_neg hnot]
  unfold chunksContent
  cases hc : h.chunks with
  | nil => exact absurd hc hne
  | cons d rest =>
    simp only
    have hd : h.chunks.head? = some d := by rw [hc]; rfl
    have hnd : Need H D f h 0 d := hdec.needs 0 d (by rw [hc]; simp) (head_get _ _ hd)
    -- the first index entry
    have hdp : plainChecked H D h f none d = some (contrib D f h 0 d) := by
      rcases hnd with hs | hg
      · -- the empty dictionary entry: nothing stored, checksum field all zeros
        unfold contrib; rw [if_pos hs]
        unfold plainChecked storedChecked
        have hsl : slice f (h.lead + h.headerLen + d.start) d.compLen = some [] := by unfold slice; simp [hs.2.1]
        rw [hsl]
        simp only [Option.bind_eq_bind, Option.bind_some, hs.2.1, ↓reduceIte]
        rw [hdz d hd hs.2.1 hs.2.2]
        simp [hs.2.2]
      · have hdf : dictFor D f h 0 = none := by simp [dictFor]
        rw [hdf] at hg
        have := plainChecked_of_good hH none d (hlz d (by rw [hc]; simp)) hg
        rw [this]
        unfold contrib
        by_cases hs : Skipped 0 d
        · rw [if_pos hs]
          have hst := stored_nil_of_zero (f := f) (h := h) d hs.2.1
          unfold plainOf
          by_cases hct : h.compType = 0
          · simp [hct, hst]
          · obtain ⟨_, _, hdec'⟩ := hg
            simp only [hct, ↓reduceIte] at hdec' ⊢
            obtain ⟨p, hD, hp⟩ := hdec'
            rw [hD]
            have : p = [] := List.eq_nil_of_length_eq_zero (by rw [hp]; exact hs.2.2)
            simp [this]
        · rw [if_neg hs, hdf]
    rw [hdp]
    simp only [Option.bind_some]
    -- the dictionary for the data chunks
    have hdict : (if d.len = 0 then none else some (contrib D f h 0 d)) = dictMain D f h := by
      unfold dictMain
      rw [hd]
      simp only
      by_cases hl : d.len = 0
      · simp [hl]
      · simp only [hl, ↓reduceIte]
        unfold contrib
        rw [if_neg (fun hs => hl hs.2.2)]
        simp [dictFor]
    obtain ⟨parts, hp, hf⟩ := mapM_rest hH _ hdict rest 1 (Nat.le_refl 1)
      (fun c hc' => hlz c (by rw [hc]; exact List.mem_cons_of_mem _ hc'))
      (fun i c hi => hdec.needs (1 + i) c (by
          rw [hc]
          have : i < rest.length := by
            rcases Nat.lt_or_ge i rest.length with hl | hl
            · exact hl
            · rw [List.getElem?_eq_none hl] at hi; cases hi
          simp; omega)
        (by rw [hc, show 1 + i = i + 1 by omega]; simpa using hi))
    rw [hp]
    simp only [Option.bind_some]
    rw [hf, hdec.content, hc]
    rfl

/-- **C02 (model of the reader ⊑ reference decoder).**  Open, any reads that all succeed, a last read that comes up short, a
successful close: then the reference decoder's content function accepts the file behind this header and yields exactly the
bytes the reads handed out. -/
theorem stream_decodes (hH : HashLen H) (hr : C13.RunFrom 0 0 h.chunks) (hdl : h.dataLen = total h) (hne : h.chunks ≠ [])
    (hdz : ∀ d, h.chunks.head? = some d → d.compLen = 0 → d.len = 0 → (hsize h.chunkHashType).map zeros = some d.digest)
    (hlz : ∀ c ∈ h.chunks, c.len = 0 → c.compLen = 0)
    (init : List Nat) (nl : Nat)
    (hall : ∀ r ∈ (reads H D f (openCtx h) init).1, 0 ≤ r.ret)
    (hlast : 0 ≤ (compRead H D f (reads H D f (openCtx h) init).2 nl).1.ret)
    (hshort : (compRead H D f (reads H D f (openCtx h) init).2 nl).1.ret < nl)
    (hclose : close H (compRead H D f (reads H D f (openCtx h) init).2 nl).2 = true) :
    contentOf H D f h =
      some (outOf (reads H D f (openCtx h) init).1 ++ (compRead H D f (reads H D f (openCtx h) init).2 nl).1.bytes) := by
  obtain ⟨hd, hdata⟩ := stream_sound (H := H) (D := D) (f := f) hr init nl hall hlast hshort
  exact decoded_content hH hdl hne hdz hlz _ hd (hdata hclose)

end

/-! ### non-vacuity (tests): a concrete three-entry file on which every hypothesis of `stream_decodes` holds -/

def exH : HashFn := fun t bs => (hsize t).map fun n => (bs ++ zeros n).take n
def exD : Decomp := fun st _ => some st
def exF : Bytes := [1, 2, 3, 9, 8]
def exHdr : Hdr :=
  { detached := false, hashType := 3, chunkHashType := 3, flags := 0, compType := 0, lead := 0, headerLen := 0,
    headerDigest := [], dataDigest := [1, 2, 3, 9, 8, 0, 0, 0, 0, 0, 0, 0, 0, 0, 0, 0], count := 3,
    chunks := [⟨0, zeros 16, none, 0, 0, 0⟩, ⟨1, [1, 2, 3, 0, 0, 0, 0, 0, 0, 0, 0, 0, 0, 0, 0, 0], none, 3, 3, 0⟩,
               ⟨2, [9, 8, 0, 0, 0, 0, 0, 0, 0, 0, 0, 0, 0, 0, 0, 0], none, 2, 2, 3⟩],
    dataLen := 5 }

theorem exH_len : HashLen exH := by
  intro t bs d hd
  unfold exH at hd
  cases hs : hsize t with
  | none => rw [hs] at hd; cases hd
  | some n =>
    rw [hs] at hd
    simp only [Option.map_some, Option.some.injEq] at hd
    subst hd
    simp [zeros]

/-- reads of 2, 2 and 7 bytes on the example all succeed, the last comes up short, close succeeds -/
example : (∀ r ∈ (reads exH exD exF (openCtx exHdr) [2, 2]).1, 0 ≤ r.ret) ∧
    0 ≤ (compRead exH exD exF (reads exH exD exF (openCtx exHdr) [2, 2]).2 7).1.ret ∧
    (compRead exH exD exF (reads exH exD exF (openCtx exHdr) [2, 2]).2 7).1.ret < 7 ∧
    close exH (compRead exH exD exF (reads exH exD exF (openCtx exHdr) [2, 2]).2 7).2 = true ∧
    outOf (reads exH exD exF (openCtx exHdr) [2, 2]).1 ++
      (compRead exH exD exF (reads exH exD exF (openCtx exHdr) [2, 2]).2 7).1.bytes = exF := by decide

/-- the theorem applies to it -/
example : contentOf exH exD exF exHdr = some exF :=
  stream_decodes (H := exH) (D := exD) (f := exF) (h := exHdr) exH_len (by simp [C13.RunFrom, exHdr]) (by decide) (by decide)
    (by decide) (by decide) [2, 2] 7 (by decide) (by decide) (by decide) (by decide)

end Zck.Stream
