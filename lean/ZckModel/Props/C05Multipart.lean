import ZckModel.Props.C05Complete
/-! # C05, multipart path -/
namespace Zck.C05
open Zck Zck.Format Zck.Dl Zck.Copy

/-- replace everything the write path of dl.c does not look at — the multipart bookkeeping, the boundary, the three patterns, the
byte counter — by the values of another context -/
def aux (a : St) (st : St) : St := { st with mp := a.mp, boundary := a.boundary, hdrRx := a.hdrRx, dlRx := a.dlRx, endRx := a.endRx, dlBytes := a.dlBytes }

theorem aux_zeroChunk (e : Env) (a : St) (st : St) (c : Chunk) : zeroChunk e (aux a st) c = aux a (zeroChunk e st c) := rfl

theorem aux_setChunkValid (e : Env) (a : St) (st : St) (k : Nat) :
    setChunkValid e (aux a st) k = ((setChunkValid e st k).1, aux a (setChunkValid e st k).2) := by
  unfold setChunkValid
  cases e.hdr.chunks[k]? with
  | none => rfl
  | some c =>
    simp only [aux]
    cases st.hash with
    | none => rfl
    | some acc =>
      simp only
      generalize ((if c.compLen = 0 then (hsize e.hdr.chunkHashType).map zeros else e.H e.hdr.chunkHashType acc) == some c.digest) = b
      cases b <;> rfl

theorem aux_dlWrite (a : St) (st : St) (x : Bytes) :
    dlWrite (aux a st) x = ((dlWrite st x).1, aux a (dlWrite st x).2) := by
  unfold dlWrite
  simp only [aux]
  by_cases h : st.writeInChunk > 0
  · simp only [h, ↓reduceIte]
    by_cases hlt : st.writeInChunk < x.length
    · simp only [hlt, ↓reduceIte]
      by_cases h2 : st.writeInChunk = 0
      · simp only [h2, ↓reduceIte]
      · simp only [h2, ↓reduceIte]
        cases st.hash <;> rfl
    · simp only [hlt, ↓reduceIte]
      by_cases h2 : x.length = 0
      · simp only [h2, ↓reduceIte]
      · simp only [h2, ↓reduceIte]
        cases st.hash <;> rfl
  · simp only [h, ↓reduceIte]

theorem aux_findNext (e : Env) (a : St) (st : St) : ∀ (l : List RChunk) (j : Nat),
    findNext e (aux a st) l j = findNext e st l j
  | [], _ => rfl
  | rc :: rest, j => by
    unfold findNext
    rw [aux_findNext e a st rest (j + 1)]
    rfl

theorem aux_dlVerify (e : Env) (a : St) (st : St) :
    dlVerify e (aux a st) = ((dlVerify e st).1, aux a (dlVerify e st).2) := by
  unfold dlVerify
  have h : (aux a st).tgtCheck = st.tgtCheck := rfl
  rw [h]
  cases st.tgtCheck with
  | some k => exact aux_setChunkValid e a st k
  | none => rfl

theorem aux_dlOpen (e : Env) (a : St) (st : St) : dlOpen e (aux a st) = aux a (dlOpen e st) := by
  cases st
  dsimp only [dlOpen, aux]
  rename_i file pos valid err hash cur curNull dlChunkData writeInChunk tgtCheck mp boundary hdrRx dlRx endRx dlBytes ub
  generalize (if curNull = true ∨ cur ≥ e.ridx.length then 0 else cur) = c
  have := aux_findNext e a { file := file, pos := pos, valid := valid, err := err, hash := hash, cur := c, curNull := false, dlChunkData := dlChunkData, writeInChunk := writeInChunk, tgtCheck := tgtCheck, mp := mp, boundary := boundary, hdrRx := hdrRx, dlRx := dlRx, endRx := endRx, dlBytes := dlBytes, ub := ub } (e.ridx.drop c) c
  dsimp only [aux] at this
  rw [this]
  generalize findNext e _ (e.ridx.drop c) c = r
  cases r with
  | none => rfl
  | some p =>
    obtain ⟨j, rc⟩ := p
    dsimp only
    cases e.hdr.chunks[rc.tgt]? <;> rfl

theorem aux_dlSelect (e : Env) (a : St) (st : St) :
    dlSelect e (aux a st) = ((dlSelect e st).1, aux a (dlSelect e st).2) := by
  unfold dlSelect
  simp only [aux_dlVerify]
  split
  · rfl
  · simp only [aux_dlOpen]

theorem aux_dwr (e : Env) (a : St) : ∀ (F : Nat) (st : St) (x : Bytes),
    dlWriteRange e F (aux a st) x = ((dlWriteRange e F st x).1, aux a (dlWriteRange e F st x).2)
  | 0, st, x => rfl
  | F + 1, st, x => by
    unfold dlWriteRange
    show (if st.err then _ else _) = _
    split
    · rfl
    · split
      · rfl
      · rw [aux_dlWrite]
        generalize dlWrite st x = w
        obtain ⟨w1, w2⟩ := w
        cases w1 with
        | none => rfl
        | some wb =>
          simp only
          have hsel : (if (aux a w2).writeInChunk = 0 then dlSelect e (aux a w2) else (true, aux a w2)) =
              ((if w2.writeInChunk = 0 then dlSelect e w2 else (true, w2)).1, aux a (if w2.writeInChunk = 0 then dlSelect e w2 else (true, w2)).2) := by
            show (if w2.writeInChunk = 0 then _ else _) = _
            split
            · exact aux_dlSelect e a w2
            · rfl
          rw [hsel]
          generalize (if w2.writeInChunk = 0 then dlSelect e w2 else (true, w2)) = r
          obtain ⟨r1, r2⟩ := r
          simp only
          split
          · rfl
          · show (if r2.writeInChunk > 0 ∧ wb < x.length then _ else _) = _
            split
            · rw [aux_dwr e a F r2 (x.drop wb)]
              simp only
              split <;> rfl
            · rfl

def crlf2 : Bytes := [13, 10, 13, 10]

/-- no CRLFCRLF starts inside `h0` when `h0` is followed by CRLFCRLF -/
def NoEarly (h0 : Bytes) : Prop := ∀ j, j < h0.length → ((h0 ++ crlf2).drop j).take 4 ≠ crlf2

/-- the scan over `h0 ++ CRLFCRLF ++ y :: rest` finds the terminator right after `h0` -/
theorem scanFrom_find : ∀ (h0 : Bytes) (y : UInt8) (rest : Bytes) (j : Nat), NoEarly h0 →
    scanFrom (h0 ++ crlf2 ++ y :: rest) j = .inr (j + h0.length)
  | [], y, rest, j, _ => by simp [scanFrom, crlf2]
  | a :: h0, y, rest, j, hne => by
    have h0' : NoEarly h0 := by
      intro k hk
      have := hne (k + 1) (by simp; omega)
      simpa using this
    have hfirst := hne 0 (by simp)
    simp only [List.drop_zero] at hfirst
    -- at least five bytes are left: unfold one step
    have hlen : 5 ≤ (a :: h0 ++ crlf2 ++ y :: rest).length := by simp [crlf2]; omega
    match hX : (a :: h0 ++ crlf2 ++ y :: rest) with
    | x0 :: x1 :: x2 :: x3 :: x4 :: xs =>
      unfold scanFrom
      have htake : ((a :: h0) ++ crlf2).take 4 = [x0, x1, x2, x3] := by
        have h4 : ((a :: h0 ++ crlf2 ++ y :: rest).take 4) = [x0, x1, x2, x3] := by rw [hX]; rfl
        have hre : a :: h0 ++ crlf2 ++ y :: rest = ((a :: h0) ++ crlf2) ++ (y :: rest) := by simp
        rw [hre, List.take_append_of_le_length (by simp [crlf2])] at h4
        exact h4
      rw [if_neg (by
        intro hc
        apply hfirst
        rw [htake]
        obtain ⟨c0, c1, c2, c3⟩ := hc
        simp [crlf2, c0, c1, c2, c3])]
      have htail : x1 :: x2 :: x3 :: x4 :: xs = h0 ++ crlf2 ++ y :: rest := by
        have := congrArg List.tail hX
        simpa using this.symm
      rw [htail, scanFrom_find h0 y rest (j + 1) h0']
      simp only [List.length_cons]
      congr 1
      omega
    | [] => simp at hX
    | [_] => rw [hX] at hlen; simp at hlen
    | [_, _] => rw [hX] at hlen; simp at hlen
    | [_, _, _] => rw [hX] at hlen; simp at hlen
    | [_, _, _, _] => rw [hX] at hlen; simp at hlen

/-- a C string read from `a ++ 0 :: b` ends at that NUL (or earlier): what follows does not matter -/
theorem cstr_append_zero (a b : Bytes) : cstr (a ++ 0 :: b) = cstr (a ++ [0]) := by
  unfold cstr
  induction a with
  | nil => simp
  | cons x xs ih =>
    simp only [List.cons_append, List.takeWhile_cons]
    split
    · rw [ih]
    · rfl


/-- one part of a multipart body as the server sends it: the part header `h0 ++ CRLFCRLF` and the payload -/
structure Part where
  h0      : Bytes
  payload : Bytes

def Part.bytes (p : Part) : Bytes := p.h0 ++ crlf2 ++ p.payload

/-- the subject string `regexec` is given for this part header (after `j[3] = 0`) -/
def Part.subject (p : Part) : Bytes := cstr (p.h0 ++ [13, 10, 13, 0])

/-- the part is well formed for pattern `pp` under the oracle `rx`: the terminator is the first CRLFCRLF, the payload is
not empty and shorter than 2^64, and the pattern's two numbers are a range of exactly the payload's length -/
structure PartOk (rx : Rx) (pp : Bytes) (p : Part) : Prop where
  early : NoEarly p.h0
  nonempty : p.payload ≠ []
  small : p.payload.length < W64
  m : ∃ a1 b1 a2 b2, rx.part pp p.subject = some (a1, b1, a2, b2) ∧ a1 ≤ b1 ∧ b1 ≤ p.subject.length ∧ a2 ≤ b2 ∧ b2 ≤ p.subject.length ∧
        (parseNum p.subject a2 b2 + W64 - parseNum p.subject a1 b1 + 1) % W64 = p.payload.length

/-- the header step of the loop on a well-formed part: the scan finds the terminator, the pattern matches, payload mode is
entered with the payload's length -/
theorem mpLoop_header (e : Env) (fuel hs : Nat) (pre rest : Bytes) (p : Part) (st : St) (pp : Bytes)
    (hst : st.mp.state = 0) (hrx : st.dlRx = .ok pp) (hp : PartOk e.rx pp p) :
    mpLoop e (fuel + 1) (pre ++ p.bytes ++ rest) pre.length hs st =
      mpLoop e fuel ((pre ++ p.bytes ++ rest).set (pre.length + p.h0.length + 3) 0) (pre.length + p.h0.length + 4) hs
        { st with mp := { st.mp with length := p.payload.length, state := 1 } } := by
  obtain ⟨y, ys, hy⟩ := List.exists_cons_of_ne_nil hp.nonempty
  have hbuf : pre ++ p.bytes ++ rest = pre ++ (p.h0 ++ crlf2 ++ y :: (ys ++ rest)) := by
    unfold Part.bytes; rw [hy]; simp
  have hl : pre.length < (pre ++ p.bytes ++ rest).length := by rw [hbuf]; simp [crlf2]; omega
  conv => lhs; unfold mpLoop
  simp only [hst, ne_eq, not_true_eq_false, ↓reduceIte]
  rw [if_neg (by omega)]
  have hscan : scanHdr (pre ++ p.bytes ++ rest) pre.length = .inr (pre.length + p.h0.length) := by
    unfold scanHdr
    rw [hbuf, List.drop_left]
    exact scanFrom_find p.h0 y (ys ++ rest) pre.length hp.early
  rw [hscan]
  simp only
  -- the subject string
  have hsubj : cstr (((pre ++ p.bytes ++ rest).set (pre.length + p.h0.length + 3) 0).drop pre.length) = p.subject := by
    have hset : (pre ++ p.bytes ++ rest).set (pre.length + p.h0.length + 3) 0 = pre ++ (p.h0 ++ [13, 10, 13] ++ 0 :: (y :: (ys ++ rest))) := by
      rw [hbuf]
      rw [List.set_append_right _ _ (by omega)]
      congr 1
      have : pre.length + p.h0.length + 3 - pre.length = p.h0.length + 3 := by omega
      rw [this]
      have e1 : p.h0 ++ crlf2 ++ y :: (ys ++ rest) = (p.h0 ++ [13, 10, 13]) ++ 10 :: (y :: (ys ++ rest)) := by simp [crlf2]
      rw [e1, List.set_append_right _ _ (by simp)]
      simp
    rw [hset, List.drop_left]
    unfold Part.subject
    have := cstr_append_zero (p.h0 ++ [13, 10, 13]) (y :: (ys ++ rest))
    simpa [List.append_assoc] using this
  rw [hsubj]
  obtain ⟨a1, b1, a2, b2, hm, h1, h2, h3, h4, hlen⟩ := hp.m
  unfold mpPartHeader
  rw [hrx]
  simp only [hm]
  rw [if_neg (by simp only [Classical.not_not]; exact ⟨h1, h2, h3, h4⟩)]
  simp only [hlen]


theorem aux_self (st : St) : aux st st = st := by cases st; rfl

/-- `dl_write_range` leaves everything outside the write path as it was -/
theorem dwr_keeps (e : Env) (F : Nat) (st : St) (x : Bytes) : aux st (dlWriteRange e F st x).2 = (dlWriteRange e F st x).2 := by
  have h := aux_dwr e st F st x
  rw [aux_self] at h
  exact (congrArg Prod.snd h).symm

theorem dwr_mp (e : Env) (F : Nat) (st : St) (x : Bytes) : (dlWriteRange e F st x).2.mp = st.mp := by
  have := congrArg St.mp (dwr_keeps e F st x); exact this.symm
theorem dwr_dlRx (e : Env) (F : Nat) (st : St) (x : Bytes) : (dlWriteRange e F st x).2.dlRx = st.dlRx := by
  have := congrArg St.dlRx (dwr_keeps e F st x); exact this.symm
theorem dwr_endRx (e : Env) (F : Nat) (st : St) (x : Bytes) : (dlWriteRange e F st x).2.endRx = st.endRx := by
  have := congrArg St.endRx (dwr_keeps e F st x); exact this.symm

/-- the header step for any buffer whose bytes from `i` on begin with the part -/
theorem mpLoop_header_at (e : Env) (fuel hs i : Nat) (buf rest : Bytes) (p : Part) (st : St) (pp : Bytes)
    (hd : buf.drop i = p.bytes ++ rest) (hst : st.mp.state = 0) (hrx : st.dlRx = .ok pp) (hp : PartOk e.rx pp p) :
    mpLoop e (fuel + 1) buf i hs st =
      mpLoop e fuel (buf.set (i + p.h0.length + 3) 0) (i + p.h0.length + 4) hs
        { st with mp := { st.mp with length := p.payload.length, state := 1 } } := by
  have hi : i < buf.length := by
    have hl := congrArg List.length hd
    have : 0 < p.payload.length := List.length_pos_iff.mpr hp.nonempty
    simp [Part.bytes] at hl
    omega
  have hb : buf = buf.take i ++ p.bytes ++ rest := by
    rw [List.append_assoc, ← hd, List.take_append_drop]
  have hl : (buf.take i).length = i := by simp; omega
  have := mpLoop_header e fuel hs (buf.take i) rest p st pp hst hrx hp
  rw [← hb, hl] at this
  exact this

/-- the payload step: the whole payload is in the buffer, `dl_write_range` is given exactly the payload -/
theorem mpLoop_payload (e : Env) (fuel hs i : Nat) (buf payload rest : Bytes) (st : St)
    (hd : buf.drop i = payload ++ rest) (hne : payload ≠ []) (hst : st.mp.state ≠ 0) (hlen : st.mp.length = payload.length) :
    mpLoop e (fuel + 1) buf i hs st =
      (if (dlWriteRange e (2 * payload.length + 2) { st with mp := { st.mp with length := 0, state := 0 } } payload).1 ≠ payload.length
       then (false, (dlWriteRange e (2 * payload.length + 2) { st with mp := { st.mp with length := 0, state := 0 } } payload).2)
       else mpLoop e fuel buf (i + payload.length) (i + payload.length)
              (dlWriteRange e (2 * payload.length + 2) { st with mp := { st.mp with length := 0, state := 0 } } payload).2) := by
  have hl := congrArg List.length hd
  have hpos : 0 < payload.length := List.length_pos_iff.mpr hne
  simp only [List.length_drop, List.length_append] at hl
  have hi : ¬ (i ≥ buf.length) := by omega
  have hle : payload.length ≤ buf.length - i := by omega
  have htake : (buf.drop i).take payload.length = payload := by rw [hd]; simp
  conv => lhs; unfold mpLoop
  simp only [hst, ne_eq, not_false_eq_true, ↓reduceIte, hi]
  unfold mpPayload
  simp only [hlen, hle, ↓reduceIte, htake]
  split
  · rename_i h; rw [if_pos (by simpa using h)]
  · rename_i h; rw [if_neg (by simpa using h)]

theorem mp_reset (st : St) (L : Nat) (h0 : st.mp.state = 0) (hl : st.mp.length = 0) :
    ({ st with mp := { ({ st.mp with length := L, state := 1 } : Mp) with length := 0, state := 0 } } : St) = st := by
  obtain ⟨file, pos, valid, err, hash, cur, curNull, dlChunkData, writeInChunk, tgtCheck, mp, boundary, hdrRx, dlRx, endRx, dlBytes, ub⟩ := st
  obtain ⟨s, l, b⟩ := mp
  simp only at h0 hl
  subst h0; subst hl
  rfl

/-- one whole part in the buffer: the loop hands exactly the payload to `dl_write_range`, in the context as it stood before the
part, and goes on behind the part -/
theorem mpLoop_part (e : Env) (fuel hs i : Nat) (buf rest : Bytes) (p : Part) (st : St) (pp : Bytes)
    (hd : buf.drop i = p.bytes ++ rest) (hst : st.mp.state = 0) (hl0 : st.mp.length = 0) (hrx : st.dlRx = .ok pp)
    (hp : PartOk e.rx pp p) :
    mpLoop e (fuel + 2) buf i hs st =
      (if (dlWriteRange e (2 * p.payload.length + 2) st p.payload).1 ≠ p.payload.length
       then (false, (dlWriteRange e (2 * p.payload.length + 2) st p.payload).2)
       else mpLoop e fuel (buf.set (i + p.h0.length + 3) 0) (i + p.bytes.length) (i + p.bytes.length)
              (dlWriteRange e (2 * p.payload.length + 2) st p.payload).2) := by
  rw [mpLoop_header_at e (fuel + 1) hs i buf rest p st pp hd hst hrx hp]
  have hd1 : (buf.set (i + p.h0.length + 3) 0).drop (i + p.h0.length + 4) = p.payload ++ rest := by
    rw [List.drop_set_of_lt (by omega)]
    have : i + p.h0.length + 4 = i + (p.h0.length + 4) := by omega
    rw [this, ← List.drop_drop, hd]
    simp [Part.bytes, crlf2, List.append_assoc]
  rw [mpLoop_payload e fuel hs (i + p.h0.length + 4) _ p.payload rest _ hd1 hp.nonempty (by simp) (by simp)]
  have hre := mp_reset st p.payload.length hst hl0
  simp only at hre ⊢
  rw [hre]
  have hlen : i + p.h0.length + 4 + p.payload.length = i + p.bytes.length := by simp [Part.bytes, crlf2]; omega
  rw [hlen]

def partsBytes (ps : List Part) : Bytes := (ps.map Part.bytes).flatten

/-- the payloads handed to `dl_write_range` one after the other -/
def dwrParts (e : Env) : St → List Part → St
  | st, [] => st
  | st, p :: ps => dwrParts e (dlWriteRange e (2 * p.payload.length + 2) st p.payload).2 ps

/-- every payload is taken completely -/
def Taken (e : Env) : St → List Part → Prop
  | _, [] => True
  | st, p :: ps => (dlWriteRange e (2 * p.payload.length + 2) st p.payload).1 = p.payload.length ∧
      Taken e (dlWriteRange e (2 * p.payload.length + 2) st p.payload).2 ps

theorem mpLoop_parts (e : Env) (pp : Bytes) : ∀ (ps : List Part) (st : St) (buf : Bytes) (i hs fuel : Nat) (rest : Bytes),
    buf.drop i = partsBytes ps ++ rest → st.mp.state = 0 → st.mp.length = 0 → st.dlRx = .ok pp →
    (∀ p ∈ ps, PartOk e.rx pp p) → Taken e st ps →
    ∃ buf' hs', buf'.length = buf.length ∧ buf'.drop (i + (partsBytes ps).length) = rest ∧
      (ps ≠ [] → hs' = i + (partsBytes ps).length) ∧ (ps = [] → hs' = hs) ∧
      mpLoop e (fuel + 2 * ps.length) buf i hs st = mpLoop e fuel buf' (i + (partsBytes ps).length) hs' (dwrParts e st ps)
  | [], st, buf, i, hs, fuel, rest, hd, _, _, _, _, _ => by
    refine ⟨buf, hs, rfl, ?_, fun h => absurd rfl h, fun _ => rfl, ?_⟩
    · simpa [partsBytes] using hd
    · simp [partsBytes, dwrParts]
  | p :: ps, st, buf, i, hs, fuel, rest, hd, hst, hl0, hrx, hok, htk => by
    have hd' : buf.drop i = p.bytes ++ (partsBytes ps ++ rest) := by
      rw [hd]; simp [partsBytes, List.append_assoc]
    obtain ⟨ht1, ht2⟩ := htk
    have hp := hok p (List.mem_cons_self)
    have hstep := mpLoop_part e (fuel + 2 * ps.length) hs i buf (partsBytes ps ++ rest) p st pp hd' hst hl0 hrx hp
    rw [if_neg (by simpa using ht1)] at hstep
    -- the buffer behind the part is unchanged
    have hd1 : (buf.set (i + p.h0.length + 3) 0).drop (i + p.bytes.length) = partsBytes ps ++ rest := by
      rw [List.drop_set_of_lt (by simp [Part.bytes, crlf2]; omega)]
      rw [← List.drop_drop, hd']
      simp
    obtain ⟨buf', hs', hb1, hb2, hb3, hb4, hb5⟩ := mpLoop_parts e pp ps (dlWriteRange e (2 * p.payload.length + 2) st p.payload).2
      (buf.set (i + p.h0.length + 3) 0) (i + p.bytes.length) (i + p.bytes.length) fuel rest hd1
      (by rw [dwr_mp]; exact hst) (by rw [dwr_mp]; exact hl0) (by rw [dwr_dlRx]; exact hrx)
      (fun q hq => hok q (List.mem_cons_of_mem _ hq)) ht2
    have hlen : (partsBytes (p :: ps)).length = p.bytes.length + (partsBytes ps).length := by simp [partsBytes]
    refine ⟨buf', hs', by rw [hb1]; simp, ?_, ?_, fun h => by simp at h, ?_⟩
    · rw [hlen, ← Nat.add_assoc]; exact hb2
    · intro _
      rw [hlen, ← Nat.add_assoc]
      by_cases hps : ps = []
      · rw [hb4 hps, hps]; simp [partsBytes]
      · exact hb3 hps
    · have hf : fuel + 2 * (p :: ps).length = (fuel + 2 * ps.length) + 2 := by simp; omega
      rw [hf, hstep, hb5, hlen, ← Nat.add_assoc]
      rfl

/-- what follows the last part holds no complete part header: the scan runs to the end -/
def NoHeader (t : Bytes) : Prop := ∀ j r, scanFrom t j ≠ .inr r

/-- the end of the buffer in header mode: what is left from `hs` on is kept for the next call -/
theorem mpLoop_tail (e : Env) (fuel i : Nat) (buf : Bytes) (st : St) (hst : st.mp.state = 0) (hi : i ≤ buf.length)
    (hn : NoHeader (buf.drop i)) :
    mpLoop e (fuel + 2) buf i i st =
      (true, if buf.length - i > 0 then { st with mp := { st.mp with buffer := some (buf.drop i) } } else st) := by
  by_cases hlt : i ≥ buf.length
  · unfold mpLoop
    simp only [hst, ne_eq, not_true_eq_false, ↓reduceIte, hlt]
  · conv => lhs; unfold mpLoop
    simp only [hst, ne_eq, not_true_eq_false, ↓reduceIte, hlt]
    unfold scanHdr
    cases hs : scanFrom (buf.drop i) i with
    | inr r => exact absurd hs (hn i r)
    | inl r =>
      simp only
      have := ((C17.scanFrom_spec (buf.drop i) i).1 r hs)
      simp only [List.length_drop] at this
      unfold mpLoop
      simp only [hst, ne_eq, not_true_eq_false, ↓reduceIte]
      rw [if_pos (by omega)]

/-- **C05 (multipart framing is transparent)**: one call of `multipart_extract` with a whole multipart body — any number of
well-formed parts, each with any part header the server likes as long as the pattern finds the two numbers of a range as long
as the payload, then a trailer — is, for the target file, the chunk marks, the open chunk and the running checksum, exactly
the payloads handed to `dl_write_range` one after the other; the trailer is kept for the next call. -/
theorem multipart_whole (e : Env) (st : St) (pp : Bytes) (ps : List Part) (trailer : Bytes)
    (herr : st.err = false) (hmp : st.mp = {}) (hrx : st.dlRx = .ok pp) (hne : ps ≠ [])
    (hok : ∀ p ∈ ps, PartOk e.rx pp p) (htr : NoHeader trailer) (htk : Taken e st ps) :
    mpExtract e st (partsBytes ps ++ trailer) =
      (true, if trailer = [] then dwrParts e st ps
             else { dwrParts e st ps with mp := { (dwrParts e st ps).mp with buffer := some trailer } }) := by
  unfold mpExtract
  simp only [herr, Bool.false_eq_true, ↓reduceIte]
  have hj : mpJoin st (partsBytes ps ++ trailer) = (partsBytes ps ++ trailer, st) := by
    unfold mpJoin; rw [hmp]
  rw [hj]
  have hen : mpEnsureRx e st = (true, st) := by unfold mpEnsureRx; rw [hrx]
  simp only [hen, not_true_eq_false, ↓reduceIte]
  have hst : st.mp.state = 0 := by rw [hmp]
  have hl0 : st.mp.length = 0 := by rw [hmp]
  -- every part has at least five bytes
  have hlen : ∀ (qs : List Part), (∀ q ∈ qs, PartOk e.rx pp q) → 2 * qs.length ≤ (partsBytes qs).length := by
    intro qs
    induction qs with
    | nil => intro _; simp
    | cons q qs ih =>
      intro h
      have := ih (fun x hx => h x (List.mem_cons_of_mem _ hx))
      simp [partsBytes, Part.bytes, crlf2] at this ⊢
      omega
  have hL := hlen ps hok
  obtain ⟨F, hF⟩ : ∃ F, 2 * (partsBytes ps ++ trailer).length + 4 = (F + 2) + 2 * ps.length := by
    refine ⟨2 * (partsBytes ps ++ trailer).length + 4 - 2 * ps.length - 2, ?_⟩
    simp only [List.length_append]; omega
  rw [hF]
  obtain ⟨buf', hs', hb1, hb2, hb3, _, hb5⟩ := mpLoop_parts e pp ps st (partsBytes ps ++ trailer) 0 0 (F + 2) trailer
    (by simp) hst hl0 hrx hok htk
  rw [hb5, hb3 hne]
  have hD : ∀ (qs : List Part) (s : St), (dwrParts e s qs).mp = s.mp := by
    intro qs
    induction qs with
    | nil => intro s; rfl
    | cons q qs ih => intro s; simp only [dwrParts]; rw [ih, dwr_mp]
  have hi : 0 + (partsBytes ps).length ≤ buf'.length := by rw [hb1]; simp
  rw [mpLoop_tail e F _ buf' _ (by rw [hD]; exact hst) hi (by rw [hb2]; exact htr)]
  rw [hb2]
  have hlt : buf'.length - (0 + (partsBytes ps).length) = trailer.length := by rw [hb1]; simp
  rw [hlt]
  by_cases ht : trailer = []
  · simp [ht]
  · have : trailer.length > 0 := List.length_pos_iff.mpr ht
    simp [ht, this]

/-! ### non-vacuity (a test on a concrete instance, labelled as a test) -/

def mpRx : Rx := { C17.toyRx with part := fun _ _ => some (0, 1, 2, 3) }
def mpEnv : Env := { C17.toyEnv with rx := mpRx }
def mpSt : St := { C17.toySt with dlRx := .ok [], endRx := .ok [], boundary := some [] }
/-- part headers "0-2" and "3-4": the toy pattern finds the two numbers at [0,1) and [2,3) -/
def part1 : Part := ⟨[48, 45, 50], [1, 2, 3]⟩
def part2 : Part := ⟨[51, 45, 52], [4, 5]⟩

theorem part1_ok : PartOk mpEnv.rx [] part1 :=
  ⟨by unfold NoEarly; decide, by decide, by decide, ⟨0, 1, 2, 3, rfl, by decide, by decide, by decide, by decide, by decide⟩⟩
theorem part2_ok : PartOk mpEnv.rx [] part2 :=
  ⟨by unfold NoEarly; decide, by decide, by decide, ⟨0, 1, 2, 3, rfl, by decide, by decide, by decide, by decide, by decide⟩⟩

/-- TEST: the hypotheses of `multipart_whole` hold of a two-part body with the trailer CR LF "--", and its conclusion can be
observed: both chunks land at their offsets and are valid, the trailer is kept -/
example : Taken mpEnv mpSt [part1, part2] ∧ NoHeader [13, 10, 45, 45] ∧
    (mpExtract mpEnv mpSt (partsBytes [part1, part2] ++ [13, 10, 45, 45])).2.file = [9, 9, 9, 9, 9, 9, 1, 2, 3, 4, 5] ∧
    (mpExtract mpEnv mpSt (partsBytes [part1, part2] ++ [13, 10, 45, 45])).2.valid = [1, 1, 1] ∧
    (mpExtract mpEnv mpSt (partsBytes [part1, part2] ++ [13, 10, 45, 45])).2.mp.buffer = some [13, 10, 45, 45] := by
  refine ⟨by unfold Taken Taken Taken; decide, fun j r => by simp [scanFrom], ?_⟩
  have h := multipart_whole mpEnv mpSt [] [part1, part2] [13, 10, 45, 45] rfl rfl rfl (by simp)
    (fun p hp => by
      simp only [List.mem_cons, List.not_mem_nil, or_false] at hp
      rcases hp with rfl | rfl
      · exact part1_ok
      · exact part2_ok)
    (fun j r => by simp [scanFrom]) (by unfold Taken Taken Taken; decide)
  rw [h]
  decide

end Zck.C05
