/-
C02 / C13 — the whole read path of the model against the independent reference decoder, from the bytes of the file:

`open_read_decodes`: if the model of `zck_init_read` accepts `f`, any sequence of reads (any buffer sizes) all succeed, the last
one comes up short and `zck_close` succeeds, then `Format.decodeAny` — the reference parser followed by the reference decoder,
both written from the format text — accepts `f` and yields exactly the bytes the reads handed out.
-/
import ZckModel.Props.C13Parse
import ZckModel.Props.C02Decode

namespace Zck.Stream
open Zck Zck.Format Zck.Reader

theorem open_read_decodes (H : HashFn) (D : Decomp) (f : Bytes) (h : Hdr) (hH : HashLen H) (hsmall : f.length < 2^63)
    (hopen : Header.openFile H f = .ok h)
    (hdz : ∀ d, h.chunks.head? = some d → d.compLen = 0 → d.len = 0 → (hsize h.chunkHashType).map zeros = some d.digest)
    (hlz : ∀ c ∈ h.chunks, c.len = 0 → c.compLen = 0)
    (init : List Nat) (nl : Nat)
    (hall : ∀ r ∈ (reads H D f (openCtx h) init).1, 0 ≤ r.ret)
    (hlast : 0 ≤ (compRead H D f (reads H D f (openCtx h) init).2 nl).1.ret)
    (hshort : (compRead H D f (reads H D f (openCtx h) init).2 nl).1.ret < nl)
    (hclose : close H (compRead H D f (reads H D f (openCtx h) init).2 nl).2 = true) :
    decodeAny H D f =
      some (outOf (reads H D f (openCtx h) init).1 ++ (compRead H D f (reads H D f (openCtx h) init).2 nl).1.bytes) := by
  have hlen := C13P.openFile_len H f h hopen
  obtain ⟨_, hone, hrun, hdl, _⟩ := C13.open_sound H f h hopen (by omega)
  have hne : h.chunks ≠ [] := by
    intro hnil; rw [hnil] at hone; simp at hone
  rw [decodeAny_eq H D f h (C13P.openFile_parse H f h hsmall hopen)]
  exact stream_decodes hH hrun hdl hne hdz hlz init nl hall hlast hshort hclose

/-! ### non-vacuity (tests): a complete file, byte by byte — the parser model opens it, the reads succeed, the theorem applies -/

def exDd : Bytes := [1, 2, 3, 9, 8] ++ zeros 11
def exD1 : Bytes := [1, 2, 3] ++ zeros 13
def exD2 : Bytes := [9, 8] ++ zeros 14
def exIdx : Bytes := [0x83, 0x83] ++ (zeros 16 ++ [0x80, 0x80]) ++ (exD1 ++ [0x83, 0x83]) ++ (exD2 ++ [0x82, 0x82])
def exHeader : Bytes := exDd ++ [0x80, 0x80, 0xB8] ++ exIdx ++ [0x80]
def exHd : Bytes := [0, 0x5A, 0x43, 0x4B, 0x31, 0x83, 0xCC, 1, 2, 3, 9, 8, 0, 0, 0, 0]
def exFile : Bytes := magicFile ++ [0x83, 0xCC] ++ exHd ++ exHeader ++ [1, 2, 3, 9, 8]
def exHdr2 : Hdr :=
  { detached := false, hashType := 3, chunkHashType := 3, flags := 0, compType := 0, lead := 23, headerLen := 76,
    headerDigest := exHd, dataDigest := exDd, count := 3,
    chunks := [⟨0, zeros 16, none, 0, 0, 0⟩, ⟨1, exD1, none, 3, 3, 0⟩, ⟨2, exD2, none, 2, 2, 3⟩], dataLen := 5 }

theorem exOpen : Header.openFile exH exFile = .ok exHdr2 := by decide +kernel

example : parse exH exFile = some exHdr2 := C13P.openFile_parse exH exFile exHdr2 (by decide) exOpen

example : decodeAny exH exD exFile = some [1, 2, 3, 9, 8] :=
  open_read_decodes exH exD exFile exHdr2 exH_len (by decide) exOpen (by decide) (by decide) [2, 2] 7
    (by decide) (by decide) (by decide) (by decide)

end Zck.Stream
