-- what the driver needs: models and predicates only (no proofs), so that a broken proof
-- obligation never prevents the search for a failing input
import ZckModel.Base
import ZckModel.Gen.Consts
import ZckModel.Proto
import ZckModel.Compint
import ZckModel.Pred.C20
import ZckModel.Range
import ZckModel.Pred.C10
import ZckModel.Sha.Spec
import ZckModel.Sha.Bundled
import ZckModel.Pred.C18
import ZckModel.Format
import ZckModel.Header
import ZckModel.Pin
import ZckModel.Pred.Hdr
import ZckModel.Reader
import ZckModel.Pred.Read
import ZckModel.Writer
import ZckModel.Pred.Write
import ZckModel.Tools
import ZckModel.Copy
import ZckModel.Pred.Copy
import ZckModel.IoFault
import ZckModel.Threads
import ZckModel.Dl
import ZckModel.Pred.Dl
