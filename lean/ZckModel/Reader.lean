/-
Model of the reading side: `comp_read` / `comp_end_dchunk` / `import_dict` (src/lib/comp/comp.c,
src/lib/zck.c), `zck_get_chunk_data` / `zck_get_chunk_comp_data`, `zck_close` in read mode, and the
validators `validate_checksums` / `zck_validate_data_checksum` (src/lib/hash/hash.c), as step
machines over one context state.  The file behind the descriptor is `f`; the codec is the
parameter `D` (any function: no hypothesis where corruption is concerned).
Running checksums are modelled by the bytes fed to them so far.
-/
import ZckModel.Format
import ZckModel.Gen.Consts

namespace Zck.Reader
open Zck Zck.Format

/-- the modelled part of `zckCtx` in read mode -/
structure Ctx where
  hdr       : Hdr
  pos       : Nat                    -- offset of the descriptor
  started   : Bool := true           -- comp.started
  dict      : Option Bytes := none   -- comp.dict
  data      : Bytes := []            -- comp.data: stored bytes of the current chunk not yet decoded
  dataLoc   : Nat := 0               -- comp.data_loc
  dataIdx   : Option Nat := none     -- comp.data_idx (position in the chunk list; none = NULL)
  dataEof   : Bool := false          -- comp.data_eof
  dc        : Bytes := []            -- comp.dc_data[dc_data_loc ..): decoded bytes not yet handed out
  chunkHash : Option Bytes := none   -- check_chunk_hash: bytes hashed so far (none = no context)
  fullHash  : Option Bytes := some []   -- check_full_hash
  valid     : List Int := []         -- chunk.valid, one per chunk
  err       : Bool := false          -- error_state > 0
  fatal     : Bool := false          -- error_state == 2 (zck_clear_error refuses)

def dataOff (c : Ctx) : Nat := c.hdr.lead + c.hdr.headerLen
def chunkAt (c : Ctx) (k : Nat) : Option Chunk := c.hdr.chunks[k]?
def flag4 (c : Ctx) : Bool := c.hdr.flags / 4 % 2 = 1

/-- `read(fd, buf, n)` on the file: the bytes delivered and the new offset -/
def fileRead (f : Bytes) (pos n : Nat) : Bytes := (f.drop pos).take n

def hashUpd (h : Option Bytes) (bs : Bytes) : Option Bytes := h.map (· ++ bs)

def setValid (v : List Int) (k : Nat) (x : Int) : List Int := v.set k x

/-- `validate_chunk`: finalise the chunk checksum, force it to zeros for an empty chunk, compare.
Returns 1 / -1 (0 when no checksum context exists: "Hash hasn't been initialized"). -/
def validateChunk (H : HashFn) (c : Ctx) (ch : Chunk) : Int :=
  match c.chunkHash with
  | none => 0
  | some bs =>
    match H c.hdr.chunkHashType bs with
    | none => 0
    | some d =>
      let d := if ch.compLen = 0 then zeros d.length else d
      if d = ch.digest then 1 else -1

/-- allocations of this size or more fail (`zmalloc` returns NULL): the paths below then return
an error WITHOUT putting the context into an error state.  (2^40 is ASan's allocation limit and
beyond what glibc grants on the machines this runs on; a platform assumption.) -/
def allocLimit : Nat := 2^40

inductive EndRes where
  | oom                 -- the output buffer for a unit-decoded chunk could not be allocated
  | ok (c : Ctx)        -- chunk decoded and verified
  | badSum              -- checksum mismatch: chunk marked failed, decoded data dropped
  | fail                -- decoder error / inconsistent sizes / no checksum context

/-- `comp_end_dchunk(zck, use_dict, fd_size)` -/
def endDchunk (H : HashFn) (D : Decomp) (c : Ctx) (k : Nat) (ch : Chunk) (useDict : Bool) : EndRes :=
  -- zstd end_dchunk: dst = zmalloc(fd_size) fails for absurd declared sizes
  if c.hdr.compType ≠ 0 ∧ ch.len ≥ allocLimit then .oom else
  -- comp.end_dchunk
  let step1 : Option Ctx :=
    if c.hdr.compType = 0 then
      if ch.compLen ≠ ch.len then none else some c
    else
      match D c.data (if useDict then c.dict else none) with
      | none => none
      | some plain => if plain.length ≠ ch.len then none else some { c with data := [], dc := c.dc ++ plain }
  match step1 with
  | none => .fail
  | some c1 =>
    -- validate_current_chunk (finalising closes the checksum context)
    let v := validateChunk H c1 ch
    if v = -1 then .badSum
    else if v < 1 then .fail
    else .ok { c1 with dataLoc := 0, dataIdx := if k + 1 < c1.hdr.chunks.length then some (k + 1) else none,
                       chunkHash := some [], valid := setValid c1.valid k 1 }

/-- result of one `comp_read` call: return value and bytes written to the caller's buffer -/
structure RdOut where
  ret   : Int
  bytes : Bytes
deriving Repr, DecidableEq

/-- outcome of one iteration of the `while(dc < dst_size)` loop of `comp_read` -/
inductive Step where
  | done (r : RdOut) (c : Ctx)                    -- the call returns
  | cont (c : Ctx) (out : Bytes) (fin : Bool)     -- next iteration

/-- first chunk of the stream: the first index entry, or the second when the first is an empty dictionary -/
def firstIdx (h : Hdr) : Option Nat :=
  match h.chunks.head? with
  | some ch => if ch.compLen = 0 ∧ ch.len = 0 then (if 1 < h.chunks.length then some 1 else none) else some 0
  | none => none

/-- make sure the chunk checksum context exists (`if(zck->check_chunk_hash.ctx == NULL) hash_init`) -/
def ensureHash (c : Ctx) : Ctx := if c.chunkHash.isNone then { c with chunkHash := some [] } else c

/-- feed the whole-data checksum unless the uncompressed-source flag is set -/
def updFull (c : Ctx) (src : Bytes) : Ctx := if flag4 c then c else { c with fullHash := hashUpd c.fullHash src }

/-- the read part of an iteration: pull at most `n` bytes of the current chunk from the file -/
def stepRead (f : Bytes) (n : Nat) (c : Ctx) (ch : Chunk) (out : Bytes) : Step :=
  let rs := if c.dataLoc + n > ch.compLen then ch.compLen - c.dataLoc else n
  let src := fileRead f c.pos rs
  let c1 := ensureHash { c with pos := c.pos + src.length }
  -- hash_update with a zero length and a non-NULL pointer is an error
  if src.length = 0 then .done ⟨-1, out⟩ { c1 with err := true } else
  let c2 := updFull c1 src
  if ¬ flag4 c2 ∧ c2.fullHash.isNone then .done ⟨-1, out⟩ { c2 with err := true } else
  .cont { c2 with chunkHash := hashUpd c2.chunkHash src, data := c2.data ++ src, dataLoc := c2.dataLoc + src.length }
    out (decide (src.length < rs))

/-- the chunk-end part of an iteration -/
def stepEnd (H : HashFn) (D : Decomp) (c : Ctx) (ki : Nat) (ch : Chunk) (useDict : Bool) (out : Bytes) (fin : Bool) : Step :=
  match endDchunk H D c ki ch useDict with
  -- -1 without an error state; the C code has also dropped the pending stored bytes by then, which
  -- no later call can observe (the same allocation fails again), so the model leaves the context alone
  | .oom => .done ⟨-1, out⟩ c
  | .fail => .done ⟨-1, out⟩ { c with err := true, fatal := true, dc := [] }
  | .badSum => .done ⟨-1, out⟩ { c with err := true, fatal := true, dc := [], valid := setValid c.valid ki (-1) }
  | .ok c2 => .cont (if c2.dataIdx.isNone then { c2 with dataEof := true } else c2) out fin

/-- one iteration of the `while(dc < dst_size)` loop of `comp_read`.  `out` = bytes copied so far. -/
def step (H : HashFn) (D : Decomp) (f : Bytes) (n : Nat) (useDict : Bool) (c : Ctx) (out : Bytes) (finishedRd : Bool) : Step :=
  if out.length ≥ n then .done ⟨out.length, out⟩ c else
  -- comp_read_from_dc (VALIDATE_INT: a context in error state yields -1)
  if c.err then .done ⟨-1, out⟩ c else
  let k := min (n - out.length) c.dc.length
  let out' := out ++ c.dc.take k
  let c := { c with dc := c.dc.drop k }
  if out'.length = n then .done ⟨n, out'⟩ c else
  if k > 0 then .cont c out' finishedRd else
  if c.dataEof then .done ⟨out'.length, out'⟩ c else
  -- comp.decompress: "none" moves the pending stored bytes to the output buffer, zstd waits for the chunk end
  if c.hdr.compType = 0 ∧ c.data ≠ [] then .cont { c with dc := c.dc ++ c.data, data := [] } out' finishedRd else
  -- start of the stream: first chunk, skipping an empty dictionary entry
  match c.dataIdx with
  | none =>
    (match firstIdx c.hdr with
     | none => .done ⟨0, out'⟩ { c with dataIdx := none, chunkHash := some [] }
     | some i => .cont { c with dataIdx := some i, chunkHash := some [] } out' finishedRd)
  | some ki =>
    match chunkAt c ki with
    | none => .done ⟨-1, out'⟩ { c with err := true }
    | some ch =>
      if c.dataLoc = ch.compLen then stepEnd H D c ki ch useDict out' finishedRd
      else if finishedRd then .done ⟨-1, out'⟩ { c with err := true, fatal := true }      -- file ended inside a chunk
      else stepRead f n c ch out'

/-- the loop, with a fuel bound (never exhausted for `fuelFor`, see the driver's counters) -/
def readLoop (H : HashFn) (D : Decomp) (f : Bytes) (n : Nat) (useDict : Bool) :
    Nat → Ctx → Bytes → Bool → RdOut × Ctx
  | 0, c, out, _ => (⟨-3, out⟩, c)
  | fuel + 1, c, out, fin =>
    match step H D f n useDict c out fin with
    | .done r c' => (r, c')
    | .cont c' out' fin' => readLoop H D f n useDict fuel c' out' fin'

def fuelFor (f : Bytes) (c : Ctx) (n : Nat) : Nat := 2 * f.length + 4 * c.hdr.chunks.length + 2 * n + 16

/-- `comp_read(zck, dst, dst_size, use_dict)` without the dictionary import -/
def compReadRaw (H : HashFn) (D : Decomp) (f : Bytes) (c : Ctx) (n : Nat) (useDict : Bool) : RdOut × Ctx :=
  if c.err then (⟨-1, []⟩, c) else
  if ¬ c.started then (⟨-1, []⟩, { c with err := true }) else
  if n = 0 then (⟨0, []⟩, c) else
  readLoop H D f n useDict (fuelFor f c n) c [] false

/-- `import_dict`: read the dictionary chunk without a dictionary, then install it.
`(true, c')` = installed; `(false, c')` = failed, `c'` being the context the failed read left
behind, in (at least a non-fatal) error state -/
def importDict (H : HashFn) (D : Decomp) (f : Bytes) (c : Ctx) : Bool × Ctx :=
  match c.hdr.chunks.head? with
  | none => (false, { c with err := true, fatal := false })
  | some d =>
    if d.len = 0 then (true, c) else
    let (r, c1) := compReadRaw H D f c d.len false
    -- set_error("Error reading compressed dict"): a NON-fatal error, which also downgrades a fatal
    -- state the failed read may have left (set_error_wf overwrites error_state)
    if r.ret ≠ d.len then (false, { c1 with err := true, fatal := false })
    else (true, { c1 with dc := [], dict := some r.bytes, started := true })     -- comp_reset, set dict, comp_init

/-- `comp_read` as `zck_read` calls it (`use_dict = 1`) -/
def compRead (H : HashFn) (D : Decomp) (f : Bytes) (c : Ctx) (n : Nat) : RdOut × Ctx :=
  if c.err then (⟨-1, []⟩, c) else
  if ¬ c.started then (⟨-1, []⟩, { c with err := true }) else
  if n = 0 then (⟨0, []⟩, c) else
  match c.hdr.chunks.head? with
  | none => (⟨-1, []⟩, { c with err := true })           -- index.first is never NULL after a successful open
  | some d =>
    if d.len > 0 ∧ c.dict.isNone then
      -- import_dict: data = zmalloc(size) fails for an absurd declared size: -1, no error state
      if d.len ≥ allocLimit then (⟨-1, []⟩, c) else
      match importDict H D f c with
      | (false, c1) => (⟨-1, []⟩, c1)
      | (true, c1) => readLoop H D f n true (fuelFor f c1 n) c1 [] false
    else readLoop H D f n true (fuelFor f c n) c [] false

/-- `zck_clear_error`: refuses when the error is fatal -/
def clearError (c : Ctx) : Bool × Ctx :=
  if c.fatal then (false, c) else (true, { c with err := false })

/-- `zck_close` in read mode = `validate_file` -/
def close (H : HashFn) (c : Ctx) : Bool :=
  if c.err then false else
  if flag4 c then true else
  match c.fullHash with
  | none => false
  | some bs => H c.hdr.hashType bs == some c.hdr.dataDigest

/-- context right after a successful `zck_init_read` -/
def openCtx (h : Hdr) : Ctx :=
  { hdr := h, pos := h.lead + h.headerLen, valid := h.chunks.map (fun _ => 0) }

/-! ### random access -/

/-- `zck_get_chunk_data(idx, dst, dst_size)` for chunk number `k` -/
def getChunkData (H : HashFn) (D : Decomp) (f : Bytes) (c : Ctx) (k n : Nat) : RdOut × Ctx :=
  if c.err then (⟨-1, []⟩, c) else
  match chunkAt c k, c.hdr.chunks.head? with
  | some ch, some d =>
    if ch.len = 0 then (⟨0, []⟩, c) else
    -- read the dictionary if needed
    if d.len > 0 ∧ c.dict.isNone ∧ d.len ≥ allocLimit then (⟨-1, []⟩, { c with pos := dataOff c + d.start, dc := [], started := true }) else
    let c1 : Bool × Ctx :=
      if d.len > 0 ∧ c.dict.isNone then
        importDict H D f { c with pos := dataOff c + d.start, dc := [], started := true }
      else (true, c)
    match c1 with
    | (false, c1) => (⟨-1, []⟩, c1)
    | (true, c1) =>
      -- comp_reset_comp_data, comp_reset, comp_init, seek, data_idx = idx, fresh chunk checksum
      let c2 := { c1 with data := [], dataLoc := 0, dataEof := false, dc := [], started := true,
                          pos := dataOff c1 + ch.start, dataIdx := some k, chunkHash := some [] }
      compRead H D f c2 n
  | _, _ => (⟨-1, []⟩, c)

/-- `zck_get_chunk_comp_data`: seek + raw read -/
def getChunkCompData (f : Bytes) (c : Ctx) (k n : Nat) : RdOut × Ctx :=
  if c.err then (⟨-1, []⟩, c) else
  match chunkAt c k with
  | some ch =>
    if ch.len = 0 then (⟨0, []⟩, c) else
    let bs := fileRead f (dataOff c + ch.start) n
    (⟨bs.length, bs⟩, { c with pos := dataOff c + ch.start + bs.length })
  | none => (⟨-1, []⟩, c)

/-! ### validation (`validate_checksums`, `zck_validate_data_checksum`) -/

/-- read `len` bytes from `pos` in BUF_SIZE pieces the way the validators do; returns the bytes
actually delivered, the new offset, and whether some read came up short -/
def readPieces (f : Bytes) (pos len : Nat) : Bytes × Nat × Bool :=
  let got := fileRead f pos len
  -- every piece after a short one is short too and delivers nothing more
  (got, pos + got.length, decide (got.length < len))

/-- the value the scan assigns to one chunk, as a function of what could be read: `validate_chunk` on the bytes hashed,
overridden by -1 when a read came up short -/
def scanValue (H : HashFn) (hdr : Hdr) (ch : Chunk) (got : Bytes) (truncated : Bool) : Int :=
  match H hdr.chunkHashType got with
  | none => -1
  | some d =>
    let d := if ch.compLen = 0 then zeros d.length else d
    if truncated then -1 else if d = ch.digest then 1 else -1

/-- the chunk loop of `validate_checksums` -/
def scanLoop (H : HashFn) (f : Bytes) (hdr : Hdr) (useFull : Bool) :
    List Chunk → Nat → Nat → Option Bytes → List Int → Bool → (Nat × Option Bytes × List Int × Bool)
  | [], _, pos, full, valid, allGood => (pos, full, valid, allGood)
  | ch :: rest, k, pos, full, valid, allGood =>
    if k = 0 ∧ ch.len = 0 then
      let valid := setValid valid 0 1
      if hdr.detached then (pos, full, valid, allGood) else scanLoop H f hdr useFull rest (k + 1) pos full valid allGood
    else
      let (got, pos', truncated) := readPieces f pos ch.compLen
      let full := if useFull then hashUpd full got else full
      let v : Int := scanValue H hdr ch got truncated
      let valid := setValid valid k v
      let allGood := allGood && decide (v = 1)
      if hdr.detached then (pos', full, valid, allGood) else scanLoop H f hdr useFull rest (k + 1) pos' full valid allGood

/-- `validate_checksums` (= `zck_validate_checksums`, `zck_find_valid_chunks`) -/
def validateChecksums (H : HashFn) (f : Bytes) (c : Ctx) : Int × Ctx :=
  if c.err then (0, c) else
  let useFull := ¬ flag4 c
  let (_, full, valid, allGood) := scanLoop H f c.hdr useFull c.hdr.chunks 0 (dataOff c) (some []) c.valid true
  let c1 := { c with valid := valid, chunkHash := none }
  let (vf, c2) : Int × Ctx :=
    if flag4 c ∨ c.hdr.detached then ((if allGood then 1 else -1), c1)
    else if allGood then
      let ok := match full with
        | some bs => H c.hdr.hashType bs == some c.hdr.dataDigest
        | none => false
      if ok then (1, c1) else (-1, { c1 with valid := c1.valid.map (fun _ => -1) })
    else (-1, c1)
  -- seek back to the start of the data, fresh running checksum
  (vf, { c2 with pos := dataOff c, fullHash := some [] })

/-- `zck_validate_data_checksum` -/
def validateData (H : HashFn) (f : Bytes) (c : Ctx) : Int × Ctx :=
  if c.err then (0, c) else
  if flag4 c then validateChecksums H f c else
  let body := fileRead f (dataOff c) c.hdr.dataLen
  let truncated := decide (body.length < c.hdr.dataLen)
  let ok := H c.hdr.hashType body == some c.hdr.dataDigest
  ((if ok ∧ ¬ truncated then 1 else -1), { c with pos := dataOff c, fullHash := some [] })

end Zck.Reader
