/-
Model of src/lib/dl/range.c: range_merge_combined, range_add (sorted insertion walk),
zck_get_missing_range (file-order loop with limit) and zck_get_range_char (snprintf loop with
buffer growth).  The doubly linked list is a `List (Nat × Nat)`; `size_t` subtraction wraps.
-/
import ZckModel.Base
import ZckModel.Gen.Consts

namespace Zck.Range

/-- one entry of the target's index as `zck_get_missing_range` sees it -/
structure Chunk where
  number  : Nat
  start   : Nat        -- running sum of stored sizes (index_common.c finish_chunk)
  compLen : Nat
  valid   : Int        -- 1 valid, 0 missing, -1 failed
deriving Repr, DecidableEq

/-- `zckRange`: the list of ranges, `count`, and the range index (source chunk number, size) -/
structure RSt where
  items : List (Nat × Nat)
  count : Nat
  index : List (Nat × Nat)
deriving Repr, DecidableEq

def RSt.empty : RSt := ⟨[], 0, []⟩

/-- `x - 1` in `size_t` arithmetic -/
def wsub1 (x : Nat) : Nat := if x = 0 then 2^64 - 1 else x - 1

/-- `range_merge_combined`, with `ptr` held in `cur`: `ptr->end >= ptr->next->start-1` merges
`next` into `ptr` (and stays on `ptr`), otherwise advances. -/
def mergeGo (cur : Nat × Nat) : List (Nat × Nat) → Nat → List (Nat × Nat) × Nat
  | [], cnt => ([cur], cnt)
  | b :: rest, cnt =>
    if cur.2 ≥ wsub1 b.1 then
      mergeGo (cur.1, if cur.2 < b.2 then b.2 else cur.2) rest (cnt - 1)
    else
      let r := mergeGo b rest cnt
      (cur :: r.1, r.2)

def merge : List (Nat × Nat) → Nat → List (Nat × Nat) × Nat
  | [], cnt => ([], cnt)
  | a :: rest, cnt => mergeGo a rest cnt

/-- the `for(ptr = info->first; ptr;)` walk of `range_add`; the Bool says whether
`range_insert_new` (and with it `index_new_chunk`) was called -/
def walk (s e : Nat) : List (Nat × Nat) → List (Nat × Nat) × Bool
  | [] => ([(s, e)], true)
  | p :: rest =>
    if s > p.1 then
      let r := walk s e rest
      (p :: r.1, r.2)
    else if s < p.1 then ((s, e) :: p :: rest, true)
    else ((p.1, if e > p.2 then e else p.2) :: rest, false)

/-- `range_add(info, chk, zck)` with `header_len = zck_get_header_length(zck)` -/
def add (st : RSt) (c : Chunk) (hdrLen : Nat) : RSt :=
  let s := (c.start + hdrLen) % 2^64
  let e := wsub1 ((c.start + hdrLen + c.compLen) % 2^64)
  let w := walk s e st.items
  let idx := if w.2 then st.index ++ [(c.number, (e + 2^64 - s + 1) % 2^64)] else st.index
  let m := merge w.1 (st.count + 1)
  ⟨m.1, m.2, idx⟩

/-- the loop of `zck_get_missing_range` -/
def missingLoop (hdrLen : Nat) (limit : Int) : List Chunk → RSt → RSt
  | [], st => st
  | c :: rest, st =>
    if c.valid ≠ 0 then missingLoop hdrLen limit rest st
    else if c.compLen = 0 then missingLoop hdrLen limit rest st
    else
      let st' := add st c hdrLen
      if limit ≥ 0 ∧ (st'.count : Int) ≥ limit then st'
      else missingLoop hdrLen limit rest st'

def missing (hdrLen : Nat) (chunks : List Chunk) (limit : Int) : RSt :=
  missingLoop hdrLen limit chunks RSt.empty

/-! ### rendering (`zck_get_range_char`) -/

def itemText (p : Nat × Nat) : String := toString p.1 ++ "-" ++ toString p.2 ++ ","

/-- The snprintf loop.  `bufSize` grows by `(int)(buf_size * 1.5)` whenever the entry plus its
terminator does not fit; the entry is then printed again. Returns the characters kept
(`output[0..loc)`). -/
def renderLoop : List (Nat × Nat) → (bufSize loc : Nat) → List Char → Option (List Char)
  | [], _, _, acc => some acc
  | p :: rest, bufSize, loc, acc =>
    if (itemText p).toList.length ≥ bufSize - loc then
      if bufSize * 3 / 2 > bufSize then
        renderLoop (p :: rest) (bufSize * 3 / 2) loc acc
      else none            -- buffer cannot grow: the C loop would spin
    else renderLoop rest bufSize (loc + (itemText p).toList.length) (acc ++ (itemText p).toList)
termination_by l bufSize loc _ =>
  (l.length, (itemText (l.headD (0,0))).toList.length + 1 + loc - bufSize)
decreasing_by
  · apply Prod.Lex.right
    simp only [List.headD_cons]
    omega
  · apply Prod.Lex.left
    simp

/-- `zck_get_range_char`: the text without its final comma (`none`: NULL was returned) -/
def render (items : List (Nat × Nat)) : Option String :=
  match renderLoop items Zck.Gen.BUF_SIZE 0 [] with
  | none => none
  | some cs => some (String.ofList cs.dropLast)

end Zck.Range
