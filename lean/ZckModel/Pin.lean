/-
Model of the pinning options (src/lib/zck.c): `hex_to_int`, `ascii_checksum_to_bin`, the option
setters' ordering rules, and the sequence the OPEN op performs (setters in a given order,
optional `zck_validate_lead`, `zck_read_lead`, `zck_read_header`).
-/
import ZckModel.Header

namespace Zck.Pin
open Zck Zck.Header

/-- `hex_to_int` -/
def hexVal (c : UInt8) : Option Nat :=
  if 48 ≤ c.toNat ∧ c.toNat ≤ 57 then some (c.toNat - 48)
  else if 97 ≤ c.toNat ∧ c.toNat ≤ 102 then some (c.toNat - 97 + 10)
  else if 65 ≤ c.toNat ∧ c.toNat ≤ 70 then some (c.toNat - 65 + 10)
  else none

/-- `ascii_checksum_to_bin`: pairs of hex characters to bytes; a trailing single character is
checked but produces no byte -/
def toBin : Bytes → Option Bytes
  | [] => some []
  | [a] => (hexVal a).map fun _ => []
  | a :: b :: rest =>
    match hexVal a, hexVal b, toBin rest with
    | some x, some y, some r => some (UInt8.ofNat (x * 16 + y) :: r)
    | _, _, _ => none

/-- the stages at which the OPEN sequence can fail -/
inductive Stage | optType | optDigest | optLen | vlead | lead | header | done
deriving Repr, DecidableEq

/-- `zck_set_ioption(ZCK_VAL_HEADER_HASH_TYPE)` -/
def setType (p : Pins) (t : Int) : Option Pins :=
  if t < 0 then none else if p.digest.isSome then none else some { p with ht := some t.toNat }

/-- `zck_set_soption(ZCK_VAL_HEADER_DIGEST)` -/
def setDigest (p : Pins) (s : Bytes) : Option Pins :=
  match p.ht with
  | none => none                                   -- type must be set before the digest
  | some t =>
    match Format.hsize t with
    | none => none
    | some ds =>
      if ds * 2 ≠ s.length then none else
      match toBin s with
      | none => none
      | some d => some { p with digest := some d }

/-- `zck_set_ioption(ZCK_VAL_HEADER_LENGTH)` -/
def setLen (p : Pins) (n : Int) : Option Pins :=
  if n < 0 then none else some { p with len := some n.toNat }

/-- the OPEN op: setters in `order` ("td" or "dt"), length, optional validate-lead, lead, header -/
def openSeq (H : HashFn) (f : Bytes) (t : Option Int) (d : Option Bytes) (n : Option Int)
    (typeFirst : Bool) (vlead : Bool) : Stage :=
  let step1 (p : Pins) : Option Pins × Stage :=
    match t with | none => (some p, .done) | some t => (setType p t, .optType)
  let step2 (p : Pins) : Option Pins × Stage :=
    match d with | none => (some p, .done) | some d => (setDigest p d, .optDigest)
  let (first, second) := if typeFirst then (step1, step2) else (step2, step1)
  match first {} with
  | (none, st) => st
  | (some p1, _) =>
    match second p1 with
    | (none, st) => st
    | (some p2, _) =>
      match (match n with | none => some p2 | some n => setLen p2 n) with
      | none => .optLen
      | some p3 =>
        match readLead p3 f with
        | .ok l =>
          match readHeader H f l with
          | .ok _ => .done
          | _ => .header
        | _ => if vlead then .vlead else .lead

end Zck.Pin
