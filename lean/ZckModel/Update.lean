/-
Model of the documented update procedure — what `main` of src/zck_dl.c does, with the transport replaced by a reference
server holding file `B` (RFC 7233: one range → plain body, several → multipart/byteranges):
  dl_header (fetch `zck_get_min_download_size()` bytes, read the lead, fetch the rest of the header, read the header),
  zck_find_valid_chunks, zck_copy_chunks from the old file, zck_reset_failed_chunks,
  while(zck_missing_chunks > 0) { zck_dl_reset; zck_get_missing_range(max_ranges); request; feed the callbacks },
  ftruncate to header + data, zck_validate_data_checksum.
Everything below the procedure is the existing models: `Header.openFile`, `Reader.validateChecksums / validateData`,
`Copy.copyChunks`, `Range.missing`, `Dl.feedHdrs / feed`.
-/
import ZckModel.Header
import ZckModel.Reader
import ZckModel.Copy
import ZckModel.Range
import ZckModel.Dl

namespace Zck.Update
open Zck Zck.Format

/-! ### the server -/

def asciiBytes (s : String) : Bytes := s.toUTF8.toList

/-- decimal digits of `n` as bytes (what `%zu` prints) -/
def dec (n : Nat) : Bytes := (Nat.toDigits 10 n).map fun c => c.toNat.toUInt8

/-! the constant texts of a multipart body as explicit bytes (so that theorems can look inside them); each is checked against its
string at compile time -/
def bDelim : Bytes := [13, 10, 45, 45]        -- "\r\n--"
def bBase : Bytes := [51, 100, 54, 98, 54, 97, 52, 49, 54, 102, 57, 98, 53]   -- "3d6b6a416f9b5"
def bCT : Bytes := [67, 111, 110, 116, 101, 110, 116, 45, 84, 121, 112, 101, 58, 32, 97, 112, 112, 108, 105, 99, 97, 116, 105, 111, 110, 47, 111, 99, 116, 101, 116, 45, 115, 116, 114, 101, 97, 109]   -- "Content-Type: application/octet-stream"
def bCR : Bytes := [67, 111, 110, 116, 101, 110, 116, 45, 82, 97, 110, 103, 101, 58, 32, 98, 121, 116, 101, 115, 32]   -- "Content-Range: bytes "
#guard bDelim == asciiBytes "\r\n--"
#guard bBase == asciiBytes "3d6b6a416f9b5"
#guard bCT == asciiBytes "Content-Type: application/octet-stream"
#guard bCR == asciiBytes "Content-Range: bytes "
#guard dec 0 == asciiBytes (toString 0) && dec 10 == asciiBytes (toString 10) && dec 18446744073709551615 == asciiBytes (toString 18446744073709551615)

/-- the server picks a new boundary for every multipart response (`n` = number of the transfer, from 1) -/
def boundary (n : Nat) : Bytes := bBase ++ dec n

/-- inclusive ranges clipped to the file; `none` = 416 -/
def clip (total : Nat) (rs : List (Nat × Nat)) : Option (List (Nat × Nat)) :=
  if rs.isEmpty then none else
  rs.mapM fun (a, b) => if a > b ∨ a ≥ total then none else some (a, if b ≥ total then total - 1 else b)

def sliceIncl (B : Bytes) (r : Nat × Nat) : Bytes := (B.drop r.1).take (r.2 - r.1 + 1)

/-- the header of one part of a multipart body (what precedes its CRLFCRLF):
`\r\n--<boundary>\r\nContent-Type: application/octet-stream\r\nContent-Range: bytes <a>-<b>/<total>` -/
def partHdr (n total : Nat) (r : Nat × Nat) : Bytes :=
  bDelim ++ boundary n ++ [13, 10] ++ bCT ++ [13, 10] ++ bCR ++ dec r.1 ++ [45] ++ dec r.2 ++ [47] ++ dec total

def crlf2 : Bytes := [13, 10, 13, 10]

/-- the closing delimiter `\r\n--<boundary>--\r\n` -/
def closing (n : Nat) : Bytes := bDelim ++ boundary n ++ [45, 45, 13, 10]

def bStatus : Bytes := [72, 84, 84, 80, 47, 49, 46, 49, 32, 50, 48, 54, 32, 80, 97, 114, 116, 105, 97, 108, 32, 67, 111, 110, 116, 101, 110, 116, 13, 10]   -- "HTTP/1.1 206 Partial Content\r\n"
def bMP : Bytes := [67, 111, 110, 116, 101, 110, 116, 45, 84, 121, 112, 101, 58, 32, 109, 117, 108, 116, 105, 112, 97, 114, 116, 47, 98, 121, 116, 101, 114, 97, 110, 103, 101, 115, 59, 32, 98, 111, 117, 110, 100, 97, 114, 121, 61]   -- "Content-Type: multipart/byteranges; boundary="
def bCL : Bytes := [67, 111, 110, 116, 101, 110, 116, 45, 76, 101, 110, 103, 116, 104, 58, 32]   -- "Content-Length: "
def bCTline : Bytes := [67, 111, 110, 116, 101, 110, 116, 45, 84, 121, 112, 101, 58, 32, 97, 112, 112, 108, 105, 99, 97, 116, 105, 111, 110, 47, 111, 99, 116, 101, 116, 45, 115, 116, 114, 101, 97, 109, 13, 10]   -- "Content-Type: application/octet-stream\r\n"
#guard bStatus == asciiBytes "HTTP/1.1 206 Partial Content\r\n"
#guard bMP == asciiBytes "Content-Type: multipart/byteranges; boundary="
#guard bCL == asciiBytes "Content-Length: "
#guard bCTline == asciiBytes "Content-Type: application/octet-stream\r\n"

/-- the header lines of a multipart response whose body has `len` bytes -/
def mpLines (n len : Nat) : List Bytes :=
  [bStatus, bMP ++ boundary n ++ [13, 10], bCL ++ dec len ++ [13, 10], [13, 10]]

/-- the header lines of a single-range response -/
def singleLines (total : Nat) (r : Nat × Nat) : List Bytes :=
  [bStatus, bCTline, bCR ++ dec r.1 ++ [45] ++ dec r.2 ++ [47] ++ dec total ++ [13, 10], [13, 10]]

/-- response header lines and body for the (clipped) ranges -/
def respond (n : Nat) (B : Bytes) (rs : List (Nat × Nat)) : List Bytes × Bytes :=
  match rs with
  | [r] => (singleLines B.length r, sliceIncl B r)
  | _ =>
    let body := (rs.map fun r => partHdr n B.length r ++ crlf2 ++ sliceIncl B r).flatten ++ closing n
    (mpLines n body.length, body)

/-- pieces of `n` bytes (`n = 0`: one piece); no empty pieces -/
def pieces (n : Nat) (b : Bytes) : List Bytes :=
  if n = 0 then (if b.isEmpty then [] else [b]) else
  let rec go (fuel : Nat) (b : Bytes) (acc : List Bytes) : List Bytes :=
    match fuel with
    | 0 => acc.reverse
    | fuel + 1 => if b.isEmpty then acc.reverse else go fuel (b.drop n) (b.take n :: acc)
  go (b.length + 1) b []

/-! ### the procedure -/

structure Out where
  hdrReqs : List (Nat × Nat) := []
  scan    : Option (Int × List Int) := none
  copy    : Option (List Int) := none
  reqs    : List String := []
  rounds  : Nat := 0
  vd      : Option Int := none
  missing : Nat := 0
  failed  : Nat := 0
  err     : Option String := none
  file    : Bytes := []
  ub      : Bool := false
  allValid : Bool := false        -- every chunk is marked valid at the end (not printed)
deriving Repr

def countEq (v : List Int) (x : Int) : Nat := (v.filter (· == x)).length

/-- `zck_get_missing_range(zck, limit)` on the target's index with the current marks -/
def reqOf (th : Hdr) (limit : Int) (valid : List Int) : Range.RSt :=
  Range.missing (th.lead + th.headerLen)
    (th.chunks.zipIdx.map fun (c, k) => (⟨c.number, c.start, c.compLen, valid.getD k 0⟩ : Range.Chunk)) limit

/-- one transfer: a fresh `zckDL` (zck_dl_reset) on the context, header lines to `zck_header_cb`, body fragments to
`zck_write_chunk_cb`, the transport stopping at the first refusal.  Returns what the callbacks returned and the end state -/
def session (e : Dl.Env) (file : Bytes) (valid : List Int) (lines frags : List Bytes) : List Nat × List Nat × Dl.St :=
  let st0 : Dl.St := { file := file, pos := 0, valid := valid }
  let h := Dl.feedHdrs e st0 lines []
  let b := Dl.feed e true false h.2 frags []
  (h.1, b.1, b.2)

def accepted (rets : List Nat) (frags : List Bytes) : Bool :=
  rets.length == frags.length && (rets.zip frags).all (fun (r, f) => r == f.length)

/-- the connection drops after `n` body bytes (`none`: the whole body arrives) -/
def cutBody (cut : Option Nat) (b : Bytes) : Bytes :=
  match cut with
  | some n => b.take n
  | none => b

/-- one round of the fetch loop: request, response, callbacks.  `none` = the request could not be made or served -/
def round (n : Nat) (H : HashFn) (rx : Dl.Rx) (B : Bytes) (th : Hdr) (limit : Int) (frag : Nat) (cut : Option Nat) (file : Bytes)
    (valid : List Int) : String × Option (Bytes × List Int × Bool) :=
  let rst := reqOf th limit valid
  let rtext := if rst.items.isEmpty then "" else (Range.render rst.items).getD ""
  if rtext.isEmpty then ("-", none) else
  match clip B.length rst.items with
  | none => (rtext, none)
  | some rs =>
    let resp := respond n B rs
    let e : Dl.Env := { H := H, rx := rx, hdr := th, ridx := Dl.mkRidx rst.index 0 }
    -- `cut`: the connection drops after that many body bytes (the client retries in the next round)
    let frags := pieces frag (cutBody cut resp.2)
    let s := session e file valid resp.1 frags
    if ¬ accepted s.1 resp.1 then (rtext, none)
    else (rtext, some (s.2.2.file, s.2.2.valid, accepted s.2.1 frags))

/-- the fetch loop; fuel bounds the number of rounds (each successful round validates at least one chunk) -/
def loop (H : HashFn) (rx : Dl.Rx) (B : Bytes) (th : Hdr) (limit : Int) (frag : Nat) (drop : Option (Nat × Nat)) :
    Nat → Bytes → List Int → List String → Nat → (Bytes × List Int × List String × Nat × Option String)
  | 0, file, valid, reqs, n => (file, valid, reqs.reverse, n, some "no-progress")
  | fuel + 1, file, valid, reqs, n =>
    if countEq valid 0 = 0 then (file, valid, reqs.reverse, n, none) else
    match round (n + 1) H rx B th limit frag (match drop with | some (r, c) => if r = n + 1 then some c else none | none => none) file valid with
    | (r, none) => (file, valid, (r :: reqs).reverse, n + 1, some "download")
    | (r, some (f, v, false)) => (f, v, (r :: reqs).reverse, n + 1, some "download")
    | (r, some (f, v, true)) => loop H rx B th limit frag drop fuel f v (r :: reqs) (n + 1)

/-- `ftruncate(fd, zck_get_length)` -/
def truncateTo (n : Nat) (f : Bytes) : Bytes := f.take n ++ zeros (n - f.length)

/-- the end of the procedure: truncate to header + data, `zck_validate_data_checksum`, count what is left -/
def finish (H : HashFn) (th : Hdr) (o : Out) (file : Bytes) (valid : List Int) : Out :=
  let f := truncateTo (th.lead + th.headerLen + th.dataLen) file
  let vd := (Reader.validateData H f { Reader.openCtx th with valid := valid }).1
  { o with vd := some vd, missing := countEq valid 0, failed := countEq valid (-1), file := f,
           allValid := valid.length == th.chunks.length && valid.all (· == 1) }

/-- `zck_copy_chunks` from the old file, when there is one that opens -/
def copyFrom (H : HashFn) (A : Option Bytes) (th : Hdr) (t : Copy.Tgt) : Copy.Tgt :=
  match A with
  | some a =>
    (match Header.openFile H a with
     | .ok ah => Copy.copyChunks H a ah th t
     | _ => t)
  | none => t

/-- `zck_reset_failed_chunks` -/
def resetFailed (v : List Int) : List Int := v.map fun x => if x == -1 then 0 else x

/-- everything after the header is in place (`th` = the parsed header of the target `t2`): scan, copy, reset, fetch loop, end -/
def afterHeader (H : HashFn) (rx : Dl.Rx) (A : Option Bytes) (B : Bytes) (limit : Int) (frag : Nat) (drop : Option (Nat × Nat))
    (o : Out) (t2 : Bytes) (th : Hdr) : Out :=
  let sc := Reader.validateChecksums H t2 (Reader.openCtx th)
  let o := { o with scan := some (sc.1, sc.2.valid) }
  if sc.1 = 0 then { o with err := some "scan" } else
  if sc.1 = 1 then finish H th { o with copy := some sc.2.valid } t2 sc.2.valid else
  let t := copyFrom H A th ⟨t2, sc.2.valid⟩
  let valid := resetFailed t.valid
  let o := { o with copy := some valid }
  let r := loop H rx B th limit frag drop (th.chunks.length + 3) t.f valid [] 0
  let o := { o with reqs := r.2.2.1, rounds := r.2.2.2.1, file := r.1 }
  match r.2.2.2.2 with
  | some e => { o with err := some e }
  | none => finish H th o r.1 r.2.1

/-- `dl_header` after the lead is known: fetch the rest of the header if the first request did not cover it.
Returns the target with the header in place and the requests so far -/
def fetchRest (B t1 : Bytes) (total : Nat) : Bytes × Out :=
  let minDl := Zck.Gen.MIN_DOWNLOAD_SIZE
  if total > minDl then
    (Copy.writeAt t1 minDl ((B.drop minDl).take (total - minDl)),
     { hdrReqs := [(0, minDl - 1), (minDl, total - 1)], file := Copy.writeAt t1 minDl ((B.drop minDl).take (total - minDl)) })
  else (t1, { hdrReqs := [(0, minDl - 1)], file := t1 })

/-- the whole procedure on target bytes `tgt0`, old file `A` (optional), new file `B` on the server -/
def update (H : HashFn) (rx : Dl.Rx) (A : Option Bytes) (B tgt0 : Bytes) (limit : Int) (frag : Nat)
    (drop : Option (Nat × Nat) := none) : Out :=
  let minDl := Zck.Gen.MIN_DOWNLOAD_SIZE
  -- dl_header: the first request is for [0, minDl); the descriptor is at 0
  let t1 := Copy.writeAt tgt0 0 (B.take minDl)
  match Header.readLead {} t1 with
  | .ok l =>
    let total := l.leadSize + l.headerLen
    let p := fetchRest B t1 total
    if B.length < (if total > minDl then total else 0) then { p.2 with err := some "hdr-fetch2" } else
    match Header.openFile H p.1 with
    | .ok th => afterHeader H rx A B limit frag drop p.2 p.1 th
    | _ => { p.2 with err := some "header" }
  | _ => { hdrReqs := [(0, minDl - 1)], file := t1, err := some "lead" }

end Zck.Update
