/-
Model of local chunk reuse (src/lib/dl/dl.c): `zck_copy_chunks`, `write_and_verify_chunk`,
`zero_chunk`, `zck_find_matching_chunks`.  Files are byte lists; a write at an offset beyond the
end of the file leaves a hole of zeros (POSIX).
-/
import ZckModel.Format
import ZckModel.Gen.Consts

namespace Zck.Copy
open Zck Zck.Format

/-- `lseek(off); write(bs)` on a file -/
def writeAt (f : Bytes) (off : Nat) (bs : Bytes) : Bytes :=
  if bs.isEmpty then f else
  f.take off ++ zeros (off - f.length) ++ bs ++ f.drop (off + bs.length)

/-- the target of a copy: file bytes and per-chunk `valid` marks -/
structure Tgt where
  f     : Bytes
  valid : List Int
deriving Repr, DecidableEq

def dataOff (h : Hdr) : Nat := h.lead + h.headerLen

/-- first chunk of the source (file order) with this digest: the hash table keeps the first -/
def findSrc (src : Hdr) (digest : Bytes) : Option Chunk := src.chunks.find? (fun c => c.digest == digest)

def BUF : Nat := Zck.Gen.BUF_SIZE

/-- `write_and_verify_chunk(src, tgt, src_idx, tgt_idx)`: copy the stored bytes in BUF_SIZE
pieces, stopping at the first piece the source cannot deliver completely; verify; zero on mismatch -/
def writeAndVerify (H : HashFn) (srcF : Bytes) (src : Hdr) (tgtH : Hdr) (t : Tgt) (k : Nat) (sc tc : Chunk) : Tgt :=
  let data := (srcF.drop (dataOff src + sc.start)).take sc.compLen
  let off := dataOff tgtH + tc.start
  if data.length < sc.compLen then
    -- only the complete pieces before the short one were written; the chunk stays as it was marked
    { t with f := writeAt t.f off (data.take (data.length / BUF * BUF)) }
  else
    let f1 := writeAt t.f off data
    if H src.chunkHashType data == some sc.digest then { f := f1, valid := t.valid.set k 1 }
    else { f := writeAt f1 off (zeros tc.compLen), valid := t.valid.set k (-1) }     -- zero_chunk

/-- the loop of `zck_copy_chunks` over the target's chunks (`k` = number of the head chunk) -/
def copyLoop (H : HashFn) (srcF : Bytes) (src : Hdr) (tgtH : Hdr) : List Chunk → Nat → Tgt → Tgt
  | [], _, t => t
  | tc :: rest, k, t =>
    let t' :=
      if t.valid.getD k 0 = 1 then t else
      match findSrc src tc.digest with
      | some sc => if sc.len = tc.len ∧ sc.compLen = tc.compLen then writeAndVerify H srcF src tgtH t k sc tc else t
      | none => t
    copyLoop H srcF src tgtH rest (k + 1) t'

/-- `zck_copy_chunks(src, tgt)` -/
def copyChunks (H : HashFn) (srcF : Bytes) (src : Hdr) (tgtH : Hdr) (t : Tgt) : Tgt :=
  copyLoop H srcF src tgtH tgtH.chunks 0 t

/-- `zck_find_matching_chunks(src, tgt)`: per target chunk the new `valid` mark and the matched
source chunk number (`none`: the chunk points at itself) -/
def findMatching (src tgt : Hdr) (valid : List Int) : List (Int × Option Nat) :=
  tgt.chunks.zipIdx.map fun (tc, k) =>
    if valid.getD k 0 ≠ 0 then (valid.getD k 0, none) else
    let f : Option Chunk :=
      if src.compType = tgt.compType then src.chunks.find? (fun c => c.digest == tc.digest)
      else if src.flags / 4 % 2 = 1 ∧ tgt.flags / 4 % 2 = 1 then
        src.chunks.find? (fun c => c.udigest == tc.udigest ∧ c.udigest.isSome)
      else none
    match f with
    | some sc => if sc.len = tc.len then (1, some sc.number) else (0, none)
    | none => (0, none)

end Zck.Copy
