/-
Model of the writing side (src/lib/comp/comp.c: `comp_init` chunk limits, `zck_write` manual and
automatic branches, `zck_end_chunk`, forced end at `zck_close`; src/lib/buzhash/buzhash.c) at the
level of chunk structure: which bytes end up in which chunk.  The stored form of a chunk
(compression) and the header are functions of the chunk list and the configuration and are not
modelled here; the buzhash table and the constants are GENERATED from the source.
-/
import ZckModel.Base
import ZckModel.Gen.Consts

namespace Zck.Writer
open Zck

/-! ### buzhash -/

def rol32 (v : UInt32) (s : Nat) : UInt32 :=
  let s := s % 32
  if s = 0 then v else (v <<< s.toUInt32) ||| (v >>> (32 - s).toUInt32)

def tbl (c : UInt8) : UInt32 := Zck.Gen.buzhashTable.getD c.toNat 0

/-- rolling hash state: the window (oldest byte first, at most `W` bytes) and `h`;
`none` = no window allocated (after `buzhash_reset`) -/
abbrev Buz := Option (Bytes × UInt32)

/-- `buzhash_update(b, s, window, &output)`: new state and output -/
def buzUpdate (W : Nat) (b : Buz) (c : UInt8) : Buz × UInt32 :=
  let (win, h) := b.getD ([], 0)
  if win.length < W then
    let win' := win ++ [c]
    if win'.length < W then
      (some (win', h ^^^ rol32 (tbl c) (W - win'.length)), 1)
    else
      let h' := h ^^^ tbl c
      (some (win', h'), h')
  else
    let h' := rol32 h 1 ^^^ rol32 (tbl (win.headD 0)) W ^^^ tbl c
    (some (win.drop 1 ++ [c], h'), h')

/-! ### configuration (after `comp_init`) -/

structure Cfg where
  manual   : Bool
  chunkMin : Nat
  chunkMax : Nat
  W        : Nat := Zck.Gen.DEFAULT_BUZHASH_WIDTH
  bits     : Nat := Zck.Gen.DEFAULT_BUZHASH_BITS
deriving Repr, DecidableEq

/-- defaults applied by `comp_init` when the option is 0 -/
def Cfg.norm (c : Cfg) : Cfg :=
  { c with chunkMin := if c.chunkMin = 0 then Zck.Gen.CHUNK_DEFAULT_MIN else c.chunkMin,
           chunkMax := if c.chunkMax = 0 then Zck.Gen.CHUNK_DEFAULT_MAX else c.chunkMax }

def Cfg.mask (c : Cfg) : Nat := 2 ^ c.bits - 1
/-- `chunk_auto_max`: four times the average, clamped by the configured limits -/
def Cfg.autoMax (c : Cfg) : Nat :=
  let a := (c.mask + 1) * 4
  let a := if a > c.chunkMax then c.chunkMax else a
  if a < c.chunkMin then c.chunkMin else a
/-- `chunk_auto_min`: a quarter of the average, clamped by the configured limits -/
def Cfg.autoMin (c : Cfg) : Nat :=
  let a := (c.mask + 1) / 4
  let a := if a < c.chunkMin then c.chunkMin else a
  if a > c.autoMax then c.autoMax else a

/-! ### writer state -/

structure St where
  chunks : List Bytes := []     -- data chunks finished so far (in order)
  curR   : Bytes := []          -- uncompressed bytes of the chunk under construction, NEWEST FIRST
  curLen : Nat := 0             -- comp.dc_data_size (= curR.length, kept to avoid recounting)
  buz    : Buz := none
deriving Repr, DecidableEq

/-- the chunk under construction, in order -/
def St.cur (st : St) : Bytes := st.curR.reverse

/-- `zck_end_chunk` (`force` = the call from `zck_close`) -/
def endChunk (cfg : Cfg) (st : St) (force : Bool) : St :=
  if ¬ force ∧ st.curLen < cfg.chunkMin then st                -- "Chunk too small, refusing to end chunk"
  else if st.curLen = 0 then { st with buz := none }            -- buzhash_reset; nothing to compress
  else { chunks := st.chunks ++ [st.cur], curR := [], curLen := 0, buz := none }

/-- one byte through the automatic branch of `zck_write`.  The byte that triggers a boundary is
examined again after the boundary has been handled (`i = 0; continue`); `fuel` bounds these
re-examinations (see `C16.feed_terminates`). -/
def feedAuto (cfg : Cfg) : Nat → St → UInt8 → Option St
  | 0, _, _ => none
  | fuel + 1, st, b =>
    let (buz', res) := buzUpdate cfg.W st.buz b
    if res.toNat % (cfg.mask + 1) = 0 ∨ st.curLen ≥ cfg.autoMax then
      -- comp_write of the bytes before this one has already happened in the model (cur holds them)
      if st.curLen < cfg.autoMin then feedAuto cfg fuel { st with buz := buz' } b     -- refused: same byte again
      else feedAuto cfg fuel (endChunk cfg { st with buz := buz' } false) b
    else some { st with curR := b :: st.curR, curLen := st.curLen + 1, buz := buz' }

def refeedFuel (cfg : Cfg) : Nat := cfg.W + 4

/-- `zck_write` in automatic mode on a whole buffer -/
def writeAuto (cfg : Cfg) : St → Bytes → Option St
  | st, [] => some st
  | st, b :: rest =>
    match feedAuto cfg (refeedFuel cfg) st b with
    | none => none
    | some st' => writeAuto cfg st' rest

/-- `zck_write` in manual mode: split at `chunk_max_size` -/
def writeManual (cfg : Cfg) : Nat → St → Bytes → St
  | 0, st, _ => st
  | fuel + 1, st, bs =>
    if st.curLen + bs.length > cfg.chunkMax then
      let k := cfg.chunkMax - st.curLen
      let st1 := { st with curR := (bs.take k).reverse ++ st.curR, curLen := st.curLen + (bs.take k).length }
      writeManual cfg fuel (endChunk cfg st1 false) (bs.drop k)
    else { st with curR := bs.reverse ++ st.curR, curLen := st.curLen + bs.length }

/-- operations of the writing API -/
inductive Op where
  | write (bs : Bytes)
  | endChunk
deriving Repr, DecidableEq

/-- `none` = the write path did not terminate within its fuel (a hang in the C code) -/
def applyOp (cfg : Cfg) (st : St) : Op → Option St
  | .write bs =>
    if bs.isEmpty then some st
    else if cfg.manual then some (writeManual cfg (bs.length + 1) st bs)
    else writeAuto cfg st bs
  | .endChunk => some (endChunk cfg st false)

def run (cfg : Cfg) : St → List Op → Option St
  | st, [] => some st
  | st, op :: ops =>
    match applyOp cfg st op with
    | none => none
    | some st' => run cfg st' ops

/-- the data chunks of the file produced by `zck_close` after these operations -/
def closeChunks (cfg : Cfg) (ops : List Op) : Option (List Bytes) :=
  (run cfg.norm {} ops).map fun st => (endChunk cfg.norm st true).chunks

def written : List Op → Bytes
  | [] => []
  | .write bs :: ops => bs ++ written ops
  | .endChunk :: ops => written ops

end Zck.Writer
