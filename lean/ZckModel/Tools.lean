/-
Model of the `zck` tool's split-string scanner (src/zck.c, the read loop): the matcher state
`matched` is carried across the blocks `read(2)` returns (of ANY sizes); the output is the
sequence of `zck_write` / `zck_end_chunk` calls.
-/
import ZckModel.Writer

namespace Zck.Tools
open Zck Zck.Writer

/-- the `for(l = 0; l < in_size; l++)` loop on one block.  `start` = first byte of the block not
yet written, `matched` = length of the current partial match (it may have begun in an earlier
block), `ops` = calls made so far (newest first). -/
def scanLoop (split data : Bytes) : Nat → Nat → Nat → Nat → List Op → (Nat × Nat × List Op)
  | 0, _, start, matched, ops => (start, matched, ops)
  | todo + 1, l, start, matched, ops =>
    if data.getD l 0 = split.getD matched 0 then
      let matched := matched + 1
      if matched = split.length then
        -- if(l - (start + matched - 1) > 0) write_data(data + start, l - (start + matched - 1))
        let ops := if l + 1 > start + matched then Op.write ((data.drop start).take (l + 1 - (start + matched))) :: ops else ops
        -- zck_end_chunk; write_data(split_string); start = l + 1; matched = 0
        scanLoop split data todo (l + 1) (l + 1) 0 (Op.write split :: Op.endChunk :: ops)
      else scanLoop split data todo (l + 1) start matched ops
    else if matched > 0 then
      -- if(l < matched) write_data(split_string, matched - l);  matched = 0
      let ops := if l < matched then Op.write (split.take (matched - l)) :: ops else ops
      scanLoop split data todo (l + 1) start 0 ops
    else scanLoop split data todo (l + 1) start matched ops

/-- one block: the loop, then the rest of the block minus the held-back partial match -/
def scanBlock (split data : Bytes) (matched : Nat) (ops : List Op) : Nat × List Op :=
  let (start, matched, ops) := scanLoop split data data.length 0 0 matched ops
  -- if(in_size - (start + matched) > 0) write_data(data + start, in_size - (start + matched))
  let ops := if data.length > start + matched then Op.write ((data.drop start).take (data.length - (start + matched))) :: ops else ops
  (matched, ops)

/-- all blocks, then the held-back bytes of an unfinished match at end of input -/
def scanAll (split : Bytes) : List Bytes → Nat → List Op → List Op
  | [], matched, ops => (if matched > 0 then Op.write (split.take matched) :: ops else ops).reverse
  | b :: bs, matched, ops =>
    let (m, ops) := scanBlock split b matched ops
    scanAll split bs m ops

/-- the calls `zck -s split` makes for an input delivered in these blocks (`split = []`: no -s) -/
def zckOps (split : Bytes) (blocks : List Bytes) : List Op :=
  if split.isEmpty then blocks.map Op.write else scanAll split blocks 0 []

end Zck.Tools
