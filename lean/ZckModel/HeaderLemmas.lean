/- Helper lemmas about the header-reader model (property theorems: Props/C03, C06, C07, C13). -/
import ZckModel.Header
import ZckModel.Props.C20

namespace Zck.Header
open Zck Zck.Compint Zck.Res

theorem noOob_guard (c : Prop) [Decidable c] : NoOob (guard c) := by
  unfold guard; split
  · exact noOob_ok _
  · exact noOob_err

theorem guard_ok (c : Prop) [Decidable c] (u : Unit) (h : guard c = .ok u) : c := by
  unfold guard at h; split at h
  · assumption
  · cases h

theorem rdSlice_noOob (m : Bytes) (pos n : Nat) (h : pos + n ≤ m.length) : NoOob (rdSlice m pos n) := by
  unfold rdSlice; rw [if_pos h]; exact noOob_ok _

theorem rdSlice_ok (m : Bytes) (pos n : Nat) (x : Bytes) (h : rdSlice m pos n = .ok x) :
    pos + n ≤ m.length ∧ x = (m.drop pos).take n := by
  unfold rdSlice at h
  split at h
  · rename_i hle; simp only [Res.ok.injEq] at h; exact ⟨hle, h.symm⟩
  · cases h

theorem take_drop_take (f : Bytes) (k pos n : Nat) (h : pos + n ≤ k) :
    ((f.take k).drop pos).take n = (f.drop pos).take n := by
  rw [List.drop_take, List.take_take]
  congr 1
  omega

theorem decSize_noOob (m : Bytes) (pos maxLen : Nat) (h : maxLen ≤ m.length) :
    NoOob (decSize m pos maxLen) := fun i => C20.dec_in_bounds m pos maxLen h i

theorem decInt_noOob (m : Bytes) (pos maxLen : Nat) (h : maxLen ≤ m.length) :
    NoOob (decInt m pos maxLen) := fun i => C20.decInt_in_bounds m pos maxLen h i

theorem noOob_hsizeRes (t : Nat) : NoOob (hsizeRes t) := by
  unfold hsizeRes; split
  · exact noOob_err
  · exact noOob_ok _

/-- `read_lead` never reads outside its buffer -/
theorem readLead_noOob (pins : Pins) (f : Bytes) : NoOob (readLead pins f) := by
  unfold readLead
  apply noOob_bind _ _ (noOob_guard _); intro u1 h1
  have hlen := guard_ok _ _ h1
  have htake : leadRead ≤ (f.take leadRead).length := by
    rw [List.length_take, Nat.min_eq_left hlen]; exact Nat.le_refl _
  apply noOob_bind _ _ (noOob_guard _); intro u2 _
  apply noOob_bind _ _ (decInt_noOob _ _ _ htake); intro ⟨ht, n1⟩ _
  apply noOob_bind _ _ (noOob_guard _); intro u3 _
  apply noOob_bind _ _ (noOob_hsizeRes _); intro ds _
  apply noOob_bind _ _ (decSize_noOob _ _ _ htake); intro ⟨hlen', n2⟩ _
  apply noOob_bind _ _ (noOob_guard _); intro u4 h4
  have hneed := guard_ok _ _ h4
  refine noOob_bind _ _ (rdSlice_noOob _ _ _ ?_) ?_
  · simp only [List.length_take]
    split <;> omega
  intro dg _
  apply noOob_bind _ _ (noOob_guard _); intro u5 _
  apply noOob_bind _ _ (noOob_guard _); intro u6 _
  exact noOob_pure _

theorem readHeaderFromFile_noOob (H : HashFn) (f : Bytes) (l : Lead) :
    NoOob (readHeaderFromFile H f l) := by
  unfold readHeaderFromFile
  apply noOob_bind _ _ (noOob_guard _); intro _ _
  apply noOob_bind _ _ (noOob_guard _); intro _ _
  apply noOob_bind _ _ (noOob_guard _); intro _ _
  apply noOob_bind _ _ (noOob_guard _); intro _ _
  apply noOob_bind _ _ (noOob_guard _); intro _ _
  exact noOob_pure _

/-- the buffer `read_header_from_file` hands on is exactly `lead_size + header_length` bytes -/
theorem readHeaderFromFile_len (H : HashFn) (f : Bytes) (l : Lead) (hb : Bytes)
    (h : readHeaderFromFile H f l = .ok hb) : hb.length = l.leadSize + l.headerLen := by
  unfold readHeaderFromFile at h
  simp only [bind_eq_ok] at h
  obtain ⟨_, _, _, _, _, _, _, h4, _, _, h6⟩ := h
  have := guard_ok _ _ h4
  simp only [pure_eq, Res.ok.injEq] at h6
  rw [← h6, List.length_take]; omega

theorem optLoop_noOob (hb : Bytes) (base maxLen : Nat) (hlen : base + maxLen ≤ hb.length) :
    ∀ n length, NoOob (optLoop hb base maxLen n length)
  | 0, length => by unfold optLoop; exact noOob_ok _
  | n + 1, length => by
    unfold optLoop
    apply noOob_bind _ _ (decSize_noOob _ _ _ hlen); intro ⟨_, k1⟩ _
    apply noOob_bind _ _ (decSize_noOob _ _ _ hlen); intro ⟨dsz, k2⟩ _
    apply noOob_bind _ _ (noOob_guard _); intro _ _
    exact optLoop_noOob hb base maxLen hlen n _

theorem readPreface_noOob (hb : Bytes) (l : Lead) (hlen : hb.length = l.leadSize + l.headerLen) :
    NoOob (readPreface hb l) := by
  have hle : l.leadSize + l.headerLen ≤ hb.length := by omega
  unfold readPreface
  apply noOob_bind _ _ (noOob_guard _); intro _ h1
  have hds := guard_ok _ _ h1
  apply noOob_bind _ _ (rdSlice_noOob _ _ _ (by omega)); intro dd _
  apply noOob_bind _ _ (decSize_noOob _ _ _ hle); intro ⟨flags, n1⟩ _
  apply noOob_bind _ _ (noOob_guard _); intro _ _
  apply noOob_bind _ _ (decInt_noOob _ _ _ hle); intro ⟨ct, n2⟩ _
  apply noOob_bind _ _ (noOob_guard _); intro _ _
  refine noOob_bind _ _ ?_ ?_
  · unfold optPart; split
    · apply noOob_bind _ _ (decSize_noOob _ _ _ hle); intro ⟨cnt, n3⟩ _
      apply noOob_bind _ _ (noOob_guard _); intro _ _
      exact optLoop_noOob hb _ _ hle _ _
    · exact noOob_pure _
  intro length _
  apply noOob_bind _ _ (decInt_noOob _ _ _ hle); intro ⟨isz, n4⟩ _
  exact noOob_pure _

theorem entryLoop_noOob (hb : Bytes) (base size limit cs : Nat) (withU : Bool) (hdrTotal : Nat)
    (hlim : limit ≤ hb.length) :
    ∀ fuel length count idxLoc, NoOob (entryLoop hb base size limit cs withU hdrTotal fuel length count idxLoc)
  | 0, length, _, idxLoc => by
    unfold entryLoop; split
    · exact noOob_err
    · exact noOob_ok _
  | fuel + 1, length, count, idxLoc => by
    unfold entryLoop
    split
    · exact noOob_ok _
    · apply noOob_bind _ _ (noOob_guard _); intro _ h1
      have hg := guard_ok _ _ h1
      apply noOob_bind _ _ (rdSlice_noOob _ _ _ (by omega)); intro dg _
      refine noOob_bind _ _ ?_ ?_
      · unfold udPart; split
        · apply noOob_bind _ _ (noOob_guard _); intro _ h2
          have hg2 := guard_ok _ _ h2
          apply noOob_bind _ _ (rdSlice_noOob _ _ _ (by omega)); intro u _
          exact noOob_pure _
        · exact noOob_pure _
      intro ⟨u, length'⟩ _
      apply noOob_bind _ _ (decSize_noOob _ _ _ hlim); intro ⟨cl, n1⟩ _
      apply noOob_bind _ _ (noOob_guard _); intro _ _
      apply noOob_bind _ _ (decSize_noOob _ _ _ hlim); intro ⟨ln, n2⟩ _
      apply noOob_bind _ _ (noOob_guard _); intro _ _
      apply noOob_bind _ _ (entryLoop_noOob hb base size limit cs withU hdrTotal hlim fuel _ _ _)
      intro ⟨rest, endLen, total⟩ _
      exact noOob_pure _

theorem readIndex_noOob (hb : Bytes) (l : Lead) (p : Pre) (hlen : hb.length = l.leadSize + l.headerLen) :
    NoOob (readIndex hb l p) := by
  have hle : l.leadSize + l.headerLen ≤ hb.length := by omega
  unfold readIndex
  apply noOob_bind _ _ (noOob_guard _); intro _ _
  apply noOob_bind _ _ (decInt_noOob _ _ _ hle); intro ⟨cht, n1⟩ _
  apply noOob_bind _ _ (noOob_hsizeRes _); intro cs _
  apply noOob_bind _ _ (decSize_noOob _ _ _ hle); intro ⟨cnt, n2⟩ _
  apply noOob_bind _ _ (entryLoop_noOob hb _ _ _ _ _ _ hle _ _ _ _); intro ⟨chunks, endLen, total⟩ _
  apply noOob_bind _ _ (noOob_guard _); intro _ _
  apply noOob_bind _ _ (noOob_guard _); intro _ _
  exact noOob_pure _

theorem readSig_noOob (hb : Bytes) (l : Lead) (p : Pre) (hlen : hb.length = l.leadSize + l.headerLen) :
    NoOob (readSig hb l p) := by
  have hle : l.leadSize + l.headerLen ≤ hb.length := by omega
  unfold readSig
  apply noOob_bind _ _ (decInt_noOob _ _ _ hle); intro ⟨sc, _⟩ _
  exact noOob_guard _

theorem readHeader_noOob (H : HashFn) (f : Bytes) (l : Lead) : NoOob (readHeader H f l) := by
  unfold readHeader
  apply noOob_bind _ _ (readHeaderFromFile_noOob H f l); intro hb h1
  have hlen := readHeaderFromFile_len H f l hb h1
  apply noOob_bind _ _ (readPreface_noOob hb l hlen); intro p _
  apply noOob_bind _ _ (readIndex_noOob hb l p hlen); intro x _
  apply noOob_bind _ _ (readSig_noOob hb l p hlen); intro _ _
  exact noOob_pure _

theorem openFile_noOob (H : HashFn) (f : Bytes) : NoOob (openFile H f) := by
  unfold openFile
  apply noOob_bind _ _ (readLead_noOob {} f); intro l _
  exact readHeader_noOob H f l

end Zck.Header
