/-
Model of the download callbacks: src/lib/dl/dl.c (`dl_write`, `set_chunk_valid`, `zero_chunk`,
`dl_write_range`, `zck_header_cb`, `zck_write_chunk_cb`) and src/lib/dl/multipart.c
(`multipart_get_boundary`, `gen_regex`, `multipart_extract`).
The POSIX regex functions are an external component: `regcomp`/`regexec` are a PARAMETER (`Rx`),
like the codec; the correspondence check feeds libc's logged answers.  Sizes are `size_t`
(explicit wrap-around where the C code subtracts).  The target file is a byte list; the hash
context is the list of bytes fed to it so far.
-/
import ZckModel.Format
import ZckModel.Copy
import ZckModel.Range

namespace Zck.Dl
open Zck Zck.Format

/-- regcomp / regexec as functions of (pattern, subject C string) -/
structure Rx where
  comp : Bytes → Bool                                   -- regcomp(pattern) == 0
  hdr  : Bytes → Option (Nat × Nat)                     -- "boundary *= *(.*?) *\r": group 1
  part : Bytes → Bytes → Option (Nat × Nat × Nat × Nat) -- part-header pattern: groups 1 and 2
  endm : Bytes → Bytes → Bool                           -- closing-delimiter pattern matches

/-- entry of the range index (`dl->range->index`): offset in the concatenated payload, size, target chunk -/
structure RChunk where
  start   : Nat
  compLen : Nat
  tgt     : Nat
deriving Repr, DecidableEq

/-- `regex_t *` fields of zckDL: NULL, compiled (with this pattern), or allocated but not compiled -/
inductive RxSt where
  | null
  | ok (pat : Bytes)
  | broken
deriving Repr, DecidableEq

structure Mp where
  state  : Nat := 0
  length : Nat := 0
  buffer : Option Bytes := none
deriving Repr, DecidableEq

structure St where
  -- the target context
  file    : Bytes
  pos     : Nat                      -- offset of the target descriptor
  valid   : List Int
  err     : Bool := false            -- zck->error_state > 0
  hash    : Option Bytes := none     -- zck->check_chunk_hash: bytes fed since hash_init
  -- the zckDL object
  cur          : Nat := 0            -- range->index.current as a position in the range index (≥ length: NULL)
  curNull      : Bool := true
  dlChunkData  : Nat := 0
  writeInChunk : Nat := 0
  tgtCheck     : Option Nat := none
  mp       : Mp := {}
  boundary : Option Bytes := none
  hdrRx    : RxSt := .null
  dlRx     : RxSt := .null
  endRx    : RxSt := .null
  dlBytes  : Nat := 0
  ub       : Bool := false           -- undefined behaviour reached (uncompiled pattern used, access outside a buffer)
deriving Repr, DecidableEq

/-- constants of one feeding session: the parsed target header and the requested range index -/
structure Env where
  H    : HashFn
  rx   : Rx
  hdr  : Hdr
  ridx : List RChunk

def Env.dataOff (e : Env) : Nat := e.hdr.lead + e.hdr.headerLen

def W64 : Nat := 2 ^ 64

/-! ### dl.c -/

/-- `zero_chunk` followed by `valid = -1` -/
def zeroChunk (e : Env) (st : St) (c : Chunk) : St :=
  let off := e.dataOff + c.start
  { st with file := Copy.writeAt st.file off (zeros c.compLen), pos := off + c.compLen }

/-- `set_chunk_valid`: `(true, _)` = the chunk verified -/
def setChunkValid (e : Env) (st : St) (k : Nat) : Bool × St :=
  match e.hdr.chunks[k]? with
  | none => (false, { st with ub := true })
  | some c =>
    match st.hash with
    | none =>
      -- hash_finalize: "Hash hasn't been initialized"; validate_chunk marks the chunk missing and returns 0
      let st := { st with err := true, valid := st.valid.set k 0 }
      let st := zeroChunk e st c
      (false, { st with valid := st.valid.set k (-1) })
    | some acc =>
      let dg := if c.compLen = 0 then (hsize e.hdr.chunkHashType).map zeros else e.H e.hdr.chunkHashType acc
      let st := { st with hash := none }
      if dg == some c.digest then (true, { st with valid := st.valid.set k 1, tgtCheck := none })
      else
        let st := zeroChunk e st c
        (false, { st with valid := st.valid.set k (-1) })

/-- `dl_write`: `none` is the error return -1 -/
def dlWrite (st : St) (at_ : Bytes) : Option Nat × St :=
  if st.writeInChunk > 0 then
    let wb := if st.writeInChunk < at_.length then st.writeInChunk else at_.length
    let d := at_.take wb
    let st := { st with file := Copy.writeAt st.file st.pos d, pos := st.pos + wb, writeInChunk := st.writeInChunk - wb }
    -- hash_update refuses a zero-length update with a non-NULL pointer, and an uninitialised hash
    if wb = 0 then (none, { st with err := true }) else
    match st.hash with
    | none => (none, { st with err := true })
    | some acc => (some wb, { st with hash := some (acc ++ d), dlChunkData := st.dlChunkData + wb })
  else (some 0, st)

/-- the search for the chunk that starts at the current payload position -/
def findNext (e : Env) (st : St) : List RChunk → Nat → Option (Nat × RChunk)
  | [], _ => none
  | rc :: rest, j =>
    if st.dlChunkData ≠ rc.start then findNext e st rest (j + 1)
    else if st.valid.getD rc.tgt 0 = 1 then findNext e st rest (j + 1)
    else match e.hdr.chunks[rc.tgt]? with
      | some tc => if rc.compLen = tc.compLen then some (j, rc) else findNext e st rest (j + 1)
      | none => findNext e st rest (j + 1)

/-- `if(dl->tgt_check && !set_chunk_valid(dl)) return false;` -/
def dlVerify (e : Env) (st : St) : Bool × St :=
  match st.tgtCheck with
  | some k => setChunkValid e st k
  | none => (true, st)

/-- the `for` loop over the range index: open the chunk that starts at the current payload position, if there is one -/
def dlOpen (e : Env) (st : St) : St :=
  let cur := if st.curNull ∨ st.cur ≥ e.ridx.length then 0 else st.cur
  let st := { st with cur := cur, curNull := false }
  match findNext e st (e.ridx.drop cur) cur with
  | some (j, rc) =>
    match e.hdr.chunks[rc.tgt]? with
    | some tc =>
      { st with tgtCheck := some rc.tgt, hash := some [], writeInChunk := rc.compLen,
                pos := e.dataOff + tc.start, cur := j + 1, curNull := decide (j + 1 ≥ e.ridx.length) }
    | none => st
  | none => st

/-- the part of `dl_write_range` that runs when no chunk is open (`write_in_chunk == 0`): verify the chunk that was just
completed, then look for the chunk that starts at the current payload position and open it.  `false` = `return 0` -/
def dlSelect (e : Env) (st : St) : Bool × St :=
  let r := dlVerify e st
  if ¬ r.1 then (false, r.2) else (true, dlOpen e r.2)

/-- `dl_write_range`: the number of bytes taken (0 = error) -/
def dlWriteRange (e : Env) : Nat → St → Bytes → Nat × St
  | 0, st, _ => (0, { st with ub := true })
  | fuel + 1, st, at_ =>
    if st.err then (0, st) else
    if e.ridx.isEmpty then (0, { st with err := true }) else          -- "zckDL index not initialized"
    match dlWrite st at_ with
    | (none, st) => (0, st)
    | (some wb, st) =>
      let r := if st.writeInChunk = 0 then dlSelect e st else (true, st)
      if ¬ r.1 then (0, r.2) else
      let st := r.2
      if st.writeInChunk > 0 ∧ wb < at_.length then
        let r2 := dlWriteRange e fuel st (at_.drop wb)
        if r2.1 = 0 then (0, r2.2) else (wb + r2.1, r2.2)
      else (wb, st)

/-! ### multipart.c -/

def hdrPattern : Bytes := "boundary *= *(.*?) *\r".toUTF8.toList
/-- `escape_regex`: a backslash before every character that is special in a POSIX extended regular expression -/
def rxSpecial : Bytes := ".[]()*+?{}|^$\\".toUTF8.toList
def escapeRx (b : Bytes) : Bytes := b.flatMap fun c => if rxSpecial.contains c then [0x5c, c] else [c]
def partPattern (b : Bytes) : Bytes :=
  "\r?\n?--".toUTF8.toList ++ escapeRx b ++ "\r\n.*content-range: *bytes *([0-9]+) *- *([0-9]+) */[0-9]+".toUTF8.toList
def endPattern (b : Bytes) : Bytes := "\r\n--".toUTF8.toList ++ escapeRx b ++ "--".toUTF8.toList

/-- the C string at the head of a buffer -/
def cstr (bs : Bytes) : Bytes := bs.takeWhile (· ≠ 0)

/-- "Create regex to find boundary": `none` = `return 0` (the pattern is then allocated but not compiled) -/
def hdrEnsureRx (e : Env) (st : St) : Option St :=
  match st.hdrRx with
  | .null => if e.rx.comp hdrPattern then some { st with hdrRx := .ok hdrPattern } else none
  | _ => some st

/-- the boundary text inside the C string `s`, group 1 at `[so, eo)`: optional quotes removed -/
def boundaryOf (s : Bytes) (so eo : Nat) : Bytes :=
  let len := eo - so
  let quoted := s.getD so 0 = 0x22 ∧ len > 2 ∧ s.getD (so + len - 1) 0 = 0x22
  if quoted then (s.drop (so + 1)).take (len - 2) else (s.drop so).take len

/-- `multipart_get_boundary` (the header callback returns `size` whatever happens) -/
def getBoundary (e : Env) (st : St) (b : Bytes) : St :=
  if st.err then st else
  match hdrEnsureRx e st with
  | none => { st with hdrRx := .broken, err := true }
  | some st =>
    if st.hdrRx = .broken then { st with ub := true } else
    let s := cstr b
    match e.rx.hdr s with
    | none => st
    | some (so, eo) =>
      if ¬ (so ≤ eo ∧ eo ≤ s.length) then { st with ub := true } else
      { st with mp := {}, boundary := some (boundaryOf s so eo) }

/-- `gen_regex`: false = failure (the context is then in error state) -/
def genRegex (e : Env) (st : St) : Bool × St :=
  let b := st.boundary.getD []
  if ¬ e.rx.comp (partPattern b) then (false, { st with dlRx := .null, err := true }) else
  let st := { st with dlRx := .ok (partPattern b) }
  if ¬ e.rx.comp (endPattern b) then (false, { st with dlRx := .null, endRx := .null, err := true }) else
  (true, { st with endRx := .ok (endPattern b) })

/-- decimal digits `s[so, eo)` as a `size_t` -/
def parseNum (s : Bytes) (so eo : Nat) : Nat :=
  ((s.drop so).take (eo - so)).foldl (fun acc c => (acc * 10 + (c.toNat + W64 - 48)) % W64) 0

/-- the scan for CRLFCRLF over the bytes from index `j` on (`bs` = the buffer from `j`): `inl j` = fewer than five
bytes are left (`j + 4 >= end`), `inr j` = found at `j` with at least one byte following -/
def scanFrom : Bytes → Nat → Nat ⊕ Nat
  | a :: b :: c :: d :: e :: rest, j =>
    if a = 13 ∧ b = 10 ∧ c = 13 ∧ d = 10 then .inr j else scanFrom (b :: c :: d :: e :: rest) (j + 1)
  | _, j => .inl j

def scanHdr (buf : Bytes) (i : Nat) : Nat ⊕ Nat := scanFrom (buf.drop i) i

/-- the part header `s` (a C string) has been found: run the patterns on it.  `(true, st)`: a part begins, `mp->length` and
`mp->state` are set; `(false, st)`: `goto end` (closing delimiter, or an error has been set) -/
def mpPartHeader (e : Env) (s : Bytes) (st : St) : Bool × St :=
  match st.dlRx, st.endRx with
  | .ok pp, endRx =>
    match e.rx.part pp s with
    | none =>
      (match endRx with
       | .ok ep => (false, if e.rx.endm ep s then st else { st with err := true })
       | _ => (false, { st with ub := true }))
    | some (so1, eo1, so2, eo2) =>
      if ¬ (so1 ≤ eo1 ∧ eo1 ≤ s.length ∧ so2 ≤ eo2 ∧ eo2 ≤ s.length) then (false, { st with ub := true }) else
      let rstart := parseNum s so1 eo1
      let rend := parseNum s so2 eo2
      (true, { st with mp := { st.mp with length := (rend + W64 - rstart + 1) % W64, state := 1 } })
  | _, _ => (false, { st with ub := true })

/-- the payload branch of the loop: hand `min(mp->length, bytes left)` bytes to `dl_write_range`.
Result: bytes consumed, new `header_start`, whether `dl_write_range` took them all -/
def mpPayload (e : Env) (buf : Bytes) (i hs : Nat) (st : St) : Nat × Nat × Bool × St :=
  let size := buf.length - i
  let (size, mp, hs) :=
    if st.mp.length ≤ size then (st.mp.length, { st.mp with length := 0, state := 0 }, i + st.mp.length)
    else (size, { st.mp with length := st.mp.length - size }, hs)
  let st := { st with mp := mp }
  let r := dlWriteRange e (2 * size + 2) st ((buf.drop i).take size)
  (size, hs, r.1 = size, r.2)

/-- the `while(i)` loop of `multipart_extract`; result `false` = `return 0` -/
def mpLoop (e : Env) : Nat → Bytes → Nat → Nat → St → Bool × St
  | 0, _, _, _, st => (false, { st with ub := true })
  | fuel + 1, buf, i, hs, st =>
    let l := buf.length
    if st.mp.state ≠ 0 then
      if i ≥ l then (true, st) else
      let (size, hs, ok, st) := mpPayload e buf i hs st
      if ¬ ok then (false, st) else
      mpLoop e fuel buf (i + size) hs st
    else if i ≥ l then
      (true, if l - hs > 0 then { st with mp := { st.mp with buffer := some (buf.drop hs) } } else st)
    else
      match scanHdr buf i with
      | .inl j => mpLoop e fuel buf (j + 4) hs st
      | .inr j =>
        let buf := buf.set (j + 3) 0
        match mpPartHeader e (cstr (buf.drop i)) st with
        | (false, st) => (true, st)
        | (true, st) => mpLoop e fuel buf (j + 4) hs st

/-- "Add new data to stored buffer" -/
def mpJoin (st : St) (b : Bytes) : Bytes × St :=
  match st.mp.buffer with
  | some old => (old ++ b, { st with mp := { st.mp with buffer := none } })
  | none => (b, st)

/-- `if(dl->dl_regex == NULL && !gen_regex(dl))` -/
def mpEnsureRx (e : Env) (st : St) : Bool × St :=
  match st.dlRx with
  | .null => genRegex e st
  | _ => (true, st)

/-- `multipart_extract`: false = `return 0` -/
def mpExtract (e : Env) (st : St) (b : Bytes) : Bool × St :=
  if st.err then (false, st) else
  let p := mpJoin st b
  let r := mpEnsureRx e p.2
  if ¬ r.1 then (false, r.2) else
  mpLoop e (2 * p.1.length + 4) p.1 0 0 r.2

/-! ### callbacks -/

/-- `zck_header_cb(b, 1, len, dl)` (no user callback): returns `len` -/
def headerCb (e : Env) (st : St) (b : Bytes) : Nat × St := (b.length, getBoundary e st b)

/-- `zck_write_chunk_cb(ptr, 1, len, dl)` (no user callback): the value returned -/
def writeChunkCb (e : Env) (st : St) (b : Bytes) : Nat × St :=
  let st := { st with dlBytes := st.dlBytes + b.length }
  match st.boundary with
  | some _ =>
    let (ok, st) := mpExtract e st b
    (if ok then b.length else 0, st)          -- (a buffer of 2^32·k bytes would also read as 0: not reachable with ≤ 16 KiB)
  | none =>
    let (r, st) := dlWriteRange e (2 * b.length + 2) st b
    (if r = 0 then 0 else b.length, st)

/-- feed fragments; `stop`: end at the first fragment that is not accepted; `clear`: zck_clear_error after a refusal -/
def feed (e : Env) (stop clear : Bool) : St → List Bytes → List Nat → List Nat × St
  | st, [], acc => (acc.reverse, st)
  | st, b :: rest, acc =>
    let (r, st) := writeChunkCb e st b
    if r ≠ b.length ∧ stop then ((r :: acc).reverse, st)
    else feed e stop clear (if r ≠ b.length ∧ clear then { st with err := false } else st) rest (r :: acc)

def feedHdrs (e : Env) : St → List Bytes → List Nat → List Nat × St
  | st, [], acc => (acc.reverse, st)
  | st, b :: rest, acc =>
    let (r, st) := headerCb e st b
    feedHdrs e st rest (r :: acc)

/-- the range index of `zck_get_missing_range`, with payload offsets -/
def mkRidx : List (Nat × Nat) → Nat → List RChunk
  | [], _ => []
  | (n, sz) :: rest, off => ⟨off, sz, n⟩ :: mkRidx rest (off + sz)

end Zck.Dl
