/- Helper lemmas about the reader model (property theorems: Props/C02, C14, C15). -/
import ZckModel.Reader

namespace Zck.Reader
open Zck Zck.Format

/-- the chunk checksum context has been fed exactly the stored bytes that are pending for the decoder -/
def I1 (c : Ctx) : Prop := c.chunkHash = some c.data ∨ (c.chunkHash = none ∧ c.data = [])

/-- `p` was produced by the codec from stored bytes that match the index checksum of a chunk of
the file, and has that chunk's declared size -/
def Good (H : HashFn) (D : Decomp) (hdr : Hdr) (p : Bytes) : Prop :=
  ∃ ch, ch ∈ hdr.chunks ∧ ∃ (stored : Bytes) (dict : Option Bytes) (d : Bytes),
    D stored dict = some p ∧ p.length = ch.len ∧ H hdr.chunkHashType stored = some d ∧
    (if ch.compLen = 0 then zeros d.length else d) = ch.digest

/-- `b` extends `a` by the decoded content of verified chunks only -/
def Rel (H : HashFn) (D : Decomp) (hdr : Hdr) (a b : Bytes) : Prop :=
  ∃ G : List Bytes, (∀ p ∈ G, Good H D hdr p) ∧ b = a ++ G.flatten

theorem Rel.refl (H : HashFn) (D : Decomp) (hdr : Hdr) (a : Bytes) : Rel H D hdr a a :=
  ⟨[], by simp, by simp⟩

theorem Rel.trans {H : HashFn} {D : Decomp} {hdr : Hdr} {a b c : Bytes}
    (h1 : Rel H D hdr a b) (h2 : Rel H D hdr b c) : Rel H D hdr a c := by
  obtain ⟨G1, g1, e1⟩ := h1
  obtain ⟨G2, g2, e2⟩ := h2
  refine ⟨G1 ++ G2, ?_, ?_⟩
  · intro p hp
    rcases List.mem_append.mp hp with h | h
    · exact g1 p h
    · exact g2 p h
  · rw [e2, e1]; simp [List.append_assoc]

theorem Rel.of_eq {H : HashFn} {D : Decomp} {hdr : Hdr} {a b : Bytes} (h : b = a) : Rel H D hdr a b :=
  h ▸ Rel.refl H D hdr a

theorem chunkAt_mem (c : Ctx) (k : Nat) (ch : Chunk) (h : chunkAt c k = some ch) : ch ∈ c.hdr.chunks := by
  unfold chunkAt at h
  exact List.mem_of_getElem? h

/-- a chunk validation that neither fails the checksum nor errors has compared a real checksum with the index entry -/
theorem validateChunk_pos (H : HashFn) (c : Ctx) (ch : Chunk)
    (h1 : ¬ validateChunk H c ch = -1) (h2 : ¬ validateChunk H c ch < 1) :
    ∃ bs d, c.chunkHash = some bs ∧ H c.hdr.chunkHashType bs = some d ∧
      (if ch.compLen = 0 then zeros d.length else d) = ch.digest := by
  unfold validateChunk at h1 h2
  cases hb : c.chunkHash with
  | none => rw [hb] at h2; simp at h2
  | some bs =>
    rw [hb] at h1 h2
    simp only at h1 h2
    cases hd : H c.hdr.chunkHashType bs with
    | none => rw [hd] at h2; simp at h2
    | some d =>
      rw [hd] at h1 h2
      simp only at h1 h2
      by_cases hcmp : (if ch.compLen = 0 then zeros d.length else d) = ch.digest
      · exact ⟨bs, d, rfl, hd, hcmp⟩
      · simp [hcmp] at h1

/-- what a successful chunk end means (unit-decoded chunks): the decoder's output has the
declared size, was produced from exactly the bytes the checksum context was fed, and those
bytes match the index checksum; only then is it appended to the buffer handed out to callers -/
theorem endDchunk_ok (H : HashFn) (D : Decomp) (c : Ctx) (k : Nat) (ch : Chunk) (useDict : Bool) (c2 : Ctx)
    (hz : c.hdr.compType ≠ 0) (hI : I1 c) (hm : ch ∈ c.hdr.chunks)
    (h : endDchunk H D c k ch useDict = .ok c2) :
    c2.hdr = c.hdr ∧ c2.dict = c.dict ∧ I1 c2 ∧ c2.data = [] ∧ ∃ plain, Good H D c.hdr plain ∧ c2.dc = c.dc ++ plain := by
  unfold endDchunk at h
  simp only [hz, ↓reduceIte] at h
  split at h
  · cases h
  · rename_i c1 hstep
    split at hstep
    · cases hstep
    · rename_i plain hD
      split at hstep
      · cases hstep
      · rename_i hlen
        simp only [Option.some.injEq] at hstep
        subst hstep
        split at h
        · cases h
        · split at h
          · cases h
          · rename_i hv1 hv2
            simp only [EndRes.ok.injEq] at h
            subst h
            refine ⟨rfl, rfl, Or.inl rfl, rfl, plain, ?_, rfl⟩
            -- the checksum comparison that passed
            unfold validateChunk at hv1 hv2
            simp only at hv1 hv2
            rcases hI with hI | ⟨hI, _⟩
            · rw [hI] at hv1 hv2
              simp only at hv1 hv2
              cases hd : H c.hdr.chunkHashType c.data with
              | none => rw [hd] at hv2; simp at hv2
              | some d =>
                rw [hd] at hv1 hv2
                simp only at hv1 hv2
                by_cases hcmp : (if ch.compLen = 0 then zeros d.length else d) = ch.digest
                · exact ⟨ch, hm, c.data, _, d, hD, by omega, hd, hcmp⟩
                · simp [hcmp] at hv1
            · rw [hI] at hv2; simp at hv2

/-- invariant of the reader between loop iterations -/
def Inv (c : Ctx) : Prop := I1 c ∧ (c.dataIdx = none → c.data = [])

/-- what one loop iteration may do to "bytes handed out ++ bytes buffered for handing out":
extend it by verified content, or (on an error that drops the buffer) keep only a prefix -/
def StepOk (H : HashFn) (D : Decomp) (c : Ctx) (out : Bytes) : Step → Prop
  | .cont c' out' _ => (c'.hdr = c.hdr ∧ c'.dict = c.dict) ∧ Inv c' ∧ Rel H D c.hdr (out ++ c.dc) (out' ++ c'.dc)
  | .done r c' => (c'.hdr = c.hdr ∧ c'.dict = c.dict) ∧ Inv c' ∧
      (Rel H D c.hdr (out ++ c.dc) (r.bytes ++ c'.dc) ∨
       (c'.fatal = true ∧ c'.err = true ∧ c'.dc = [] ∧ ∃ rest, out ++ c.dc = r.bytes ++ rest))

theorem stepOk_done (H : HashFn) (D : Decomp) (c : Ctx) (out : Bytes) (r : RdOut) (c' : Ctx) :
    StepOk H D c out (.done r c') = ((c'.hdr = c.hdr ∧ c'.dict = c.dict) ∧ Inv c' ∧
      (Rel H D c.hdr (out ++ c.dc) (r.bytes ++ c'.dc) ∨
       (c'.fatal = true ∧ c'.err = true ∧ c'.dc = [] ∧ ∃ rest, out ++ c.dc = r.bytes ++ rest))) := rfl

theorem stepOk_cont (H : HashFn) (D : Decomp) (c : Ctx) (out : Bytes) (c' : Ctx) (out' : Bytes) (fin : Bool) :
    StepOk H D c out (.cont c' out' fin) =
      ((c'.hdr = c.hdr ∧ c'.dict = c.dict) ∧ Inv c' ∧ Rel H D c.hdr (out ++ c.dc) (out' ++ c'.dc)) := rfl

@[simp] theorem ensureHash_dict (c : Ctx) : (ensureHash c).dict = c.dict := by unfold ensureHash; split <;> rfl
@[simp] theorem updFull_dict (c : Ctx) (s : Bytes) : (updFull c s).dict = c.dict := by unfold updFull; split <;> rfl
@[simp] theorem ensureHash_hdr (c : Ctx) : (ensureHash c).hdr = c.hdr := by unfold ensureHash; split <;> rfl
@[simp] theorem ensureHash_dc (c : Ctx) : (ensureHash c).dc = c.dc := by unfold ensureHash; split <;> rfl
@[simp] theorem ensureHash_data (c : Ctx) : (ensureHash c).data = c.data := by unfold ensureHash; split <;> rfl
@[simp] theorem ensureHash_dataIdx (c : Ctx) : (ensureHash c).dataIdx = c.dataIdx := by unfold ensureHash; split <;> rfl
theorem ensureHash_I1 (c : Ctx) (hI : I1 c) : (ensureHash c).chunkHash = some c.data := by
  unfold ensureHash
  rcases hI with h | ⟨h, hd⟩
  · simp [h]
  · simp [h, hd]
@[simp] theorem updFull_hdr (c : Ctx) (s : Bytes) : (updFull c s).hdr = c.hdr := by unfold updFull; split <;> rfl
@[simp] theorem updFull_dc (c : Ctx) (s : Bytes) : (updFull c s).dc = c.dc := by unfold updFull; split <;> rfl
@[simp] theorem updFull_data (c : Ctx) (s : Bytes) : (updFull c s).data = c.data := by unfold updFull; split <;> rfl
@[simp] theorem updFull_dataIdx (c : Ctx) (s : Bytes) : (updFull c s).dataIdx = c.dataIdx := by
  unfold updFull; split <;> rfl
@[simp] theorem updFull_chunkHash (c : Ctx) (s : Bytes) : (updFull c s).chunkHash = c.chunkHash := by
  unfold updFull; split <;> rfl

theorem stepRead_ok (H : HashFn) (D : Decomp) (f : Bytes) (n : Nat) (c : Ctx) (ch : Chunk) (out : Bytes)
    (ki : Nat) (hidx : c.dataIdx = some ki) (hI : I1 c) : StepOk H D c out (stepRead f n c ch out) := by
  unfold stepRead
  simp only
  generalize fileRead f c.pos (if c.dataLoc + n > ch.compLen then ch.compLen - c.dataLoc else n) = src
  have hI0 : I1 { c with pos := c.pos + src.length } := hI
  have hch := ensureHash_I1 _ hI0
  simp only at hch
  split
  · rw [stepOk_done]
    refine ⟨⟨by simp, by simp⟩, ⟨Or.inl (by simp [hch]), by simp [hidx]⟩, Or.inl (Rel.of_eq (by simp))⟩
  · split
    · rw [stepOk_done]
      refine ⟨⟨by simp, by simp⟩, ⟨Or.inl (by simp [hch]), by simp [hidx]⟩, Or.inl (Rel.of_eq (by simp))⟩
    · rw [stepOk_cont]
      refine ⟨⟨by simp, by simp⟩, ⟨Or.inl (by simp [hch, hashUpd]), by simp [hidx]⟩, Rel.of_eq (by simp)⟩

theorem stepEnd_ok (H : HashFn) (D : Decomp) (c : Ctx) (ki : Nat) (ch : Chunk) (useDict : Bool) (out : Bytes)
    (fin : Bool) (hz : c.hdr.compType ≠ 0) (hI : Inv c) (hm : ch ∈ c.hdr.chunks) :
    StepOk H D c out (stepEnd H D c ki ch useDict out fin) := by
  unfold stepEnd
  split
  · rw [stepOk_done]
    exact ⟨⟨rfl, rfl⟩, hI, Or.inr ⟨rfl, rfl, rfl, c.dc, rfl⟩⟩
  · rw [stepOk_done]
    exact ⟨⟨rfl, rfl⟩, hI, Or.inr ⟨rfl, rfl, rfl, c.dc, rfl⟩⟩
  · rename_i c2 hok
    obtain ⟨h1, h1d, h2, h3, plain, hg, hdc⟩ := endDchunk_ok H D c ki ch useDict c2 hz hI.1 hm hok
    rw [stepOk_cont]
    have hrel : Rel H D c.hdr (out ++ c.dc) (out ++ c2.dc) :=
      ⟨[plain], by simpa using hg, by simp [hdc]⟩
    split
    · exact ⟨⟨h1, h1d⟩, ⟨h2, fun _ => h3⟩, hrel⟩
    · exact ⟨⟨h1, h1d⟩, ⟨h2, fun _ => h3⟩, hrel⟩

/-- **one iteration** of the `comp_read` loop (unit-decoded chunks): header unchanged, checksum
context still in step with the pending stored bytes, and "handed out ++ buffered" extended by
verified content only (or cut back to a prefix when an error drops the buffer) -/
theorem step_ok (H : HashFn) (D : Decomp) (f : Bytes) (n : Nat) (useDict : Bool) (c : Ctx) (out : Bytes)
    (fin : Bool) (hz : c.hdr.compType ≠ 0) (hI : Inv c) :
    StepOk H D c out (step H D f n useDict c out fin) := by
  unfold step
  simp only
  split
  · rw [stepOk_done]; exact ⟨⟨rfl, rfl⟩, hI, Or.inl (Rel.refl _ _ _ _)⟩
  split
  · rw [stepOk_done]; exact ⟨⟨rfl, rfl⟩, hI, Or.inl (Rel.refl _ _ _ _)⟩
  -- after the drain: out' ++ remaining buffer = out ++ buffer
  generalize min (n - out.length) c.dc.length = k
  have hsplit : out ++ c.dc.take k ++ c.dc.drop k = out ++ c.dc := by
    rw [List.append_assoc, List.take_append_drop]
  split
  · rw [stepOk_done]; exact ⟨⟨rfl, rfl⟩, hI, Or.inl (Rel.of_eq hsplit)⟩
  split
  · rw [stepOk_cont]; exact ⟨⟨rfl, rfl⟩, hI, Rel.of_eq hsplit⟩
  split
  · rw [stepOk_done]; exact ⟨⟨rfl, rfl⟩, hI, Or.inl (Rel.of_eq hsplit)⟩
  split
  · rename_i hc; exact absurd hc.1 hz
  split
  · -- start of the stream: no stored bytes are pending (invariant), fresh checksum context
    rename_i hnone
    have hd : c.data = [] := hI.2 hnone
    split
    · rw [stepOk_done]
      exact ⟨⟨rfl, rfl⟩, ⟨Or.inl (by simp [hd]), fun _ => hd⟩, Or.inl (Rel.of_eq hsplit)⟩
    · rw [stepOk_cont]
      exact ⟨⟨rfl, rfl⟩, ⟨Or.inl (by simp [hd]), fun _ => hd⟩, Rel.of_eq hsplit⟩
  · rename_i ki hsome
    split
    · rw [stepOk_done]; exact ⟨⟨rfl, rfl⟩, hI, Or.inl (Rel.of_eq hsplit)⟩
    · rename_i ch hch
      have hm : ch ∈ c.hdr.chunks := chunkAt_mem _ ki ch hch
      split
      · have := stepEnd_ok H D { c with dc := c.dc.drop k } ki ch useDict (out ++ c.dc.take k) fin hz hI hm
        revert this
        generalize stepEnd H D { c with dc := c.dc.drop k } ki ch useDict (out ++ c.dc.take k) fin = st
        intro h
        cases st with
        | done r c' =>
          rw [stepOk_done] at h ⊢
          simp only [hsplit] at h
          exact h
        | cont c' out' fin' =>
          rw [stepOk_cont] at h ⊢
          simp only [hsplit] at h
          exact h
      · split
        · rw [stepOk_done]; exact ⟨⟨rfl, rfl⟩, hI, Or.inl (Rel.of_eq hsplit)⟩
        · have := stepRead_ok H D f n { c with dc := c.dc.drop k } ch (out ++ c.dc.take k) ki hsome hI.1
          revert this
          generalize stepRead f n { c with dc := c.dc.drop k } ch (out ++ c.dc.take k) = st
          intro h
          cases st with
          | done r c' =>
            rw [stepOk_done] at h ⊢
            simp only [hsplit] at h
            exact h
          | cont c' out' fin' =>
            rw [stepOk_cont] at h ⊢
            simp only [hsplit] at h
            exact h

/-- outcome of a whole call, relative to the buffer `a` it started with -/
def CallOk (H : HashFn) (D : Decomp) (hdr : Hdr) (a : Bytes) (r : RdOut) (c' : Ctx) : Prop :=
  Rel H D hdr a (r.bytes ++ c'.dc) ∨
  (c'.fatal = true ∧ c'.err = true ∧ c'.dc = [] ∧ ∃ mid rest, Rel H D hdr a mid ∧ mid = r.bytes ++ rest)

theorem readLoop_ok (H : HashFn) (D : Decomp) (f : Bytes) (n : Nat) (useDict : Bool) (hdr : Hdr)
    (hz : hdr.compType ≠ 0) :
    ∀ (fuel : Nat) (c : Ctx) (out : Bytes) (fin : Bool), c.hdr = hdr → Inv c →
      ((readLoop H D f n useDict fuel c out fin).2.hdr = hdr ∧
       (readLoop H D f n useDict fuel c out fin).2.dict = c.dict) ∧
      Inv (readLoop H D f n useDict fuel c out fin).2 ∧
      CallOk H D hdr (out ++ c.dc) (readLoop H D f n useDict fuel c out fin).1
        (readLoop H D f n useDict fuel c out fin).2
  | 0, c, out, fin, hh, hI => by
    unfold readLoop
    exact ⟨⟨hh, rfl⟩, hI, Or.inl (Rel.refl _ _ _ _)⟩
  | fuel + 1, c, out, fin, hh, hI => by
    unfold readLoop
    have hs := step_ok H D f n useDict c out fin (hh ▸ hz) hI
    revert hs
    generalize step H D f n useDict c out fin = st
    intro hs
    cases st with
    | done r c' =>
      rw [stepOk_done] at hs
      obtain ⟨h1, h2, h3⟩ := hs
      refine ⟨⟨by simp [h1.1, hh], h1.2⟩, h2, ?_⟩
      rw [hh] at h3
      rcases h3 with h3 | ⟨e0, e1, e2, rest, e3⟩
      · exact Or.inl h3
      · exact Or.inr ⟨e0, e1, e2, out ++ c.dc, rest, Rel.refl _ _ _ _, e3⟩
    | cont c' out' fin' =>
      rw [stepOk_cont] at hs
      obtain ⟨h1, h2, h3⟩ := hs
      rw [hh] at h3
      have ih := readLoop_ok H D f n useDict hdr hz fuel c' out' fin' (by rw [h1.1, hh]) h2
      obtain ⟨i1, i2, i3⟩ := ih
      refine ⟨⟨i1.1, by rw [i1.2, h1.2]⟩, i2, ?_⟩
      rcases i3 with i3 | ⟨e0, e1, e2, mid, rest, e3, e4⟩
      · exact Or.inl (Rel.trans h3 i3)
      · exact Or.inr ⟨e0, e1, e2, mid, rest, Rel.trans h3 e3, e4⟩

/-- a dictionary that is needed but not loaded yet means nothing has been decoded yet -/
def InvD (c : Ctx) : Prop :=
  ∀ d, c.hdr.chunks.head? = some d → d.len > 0 → c.dict.isNone = true → c.dc = []

theorem compReadRaw_ok (H : HashFn) (D : Decomp) (f : Bytes) (c : Ctx) (n : Nat) (useDict : Bool)
    (hz : c.hdr.compType ≠ 0) (hI : Inv c) :
    (compReadRaw H D f c n useDict).2.hdr = c.hdr ∧ Inv (compReadRaw H D f c n useDict).2 := by
  unfold compReadRaw
  split
  · exact ⟨rfl, hI⟩
  split
  · exact ⟨rfl, hI⟩
  split
  · exact ⟨rfl, hI⟩
  · have := readLoop_ok H D f n useDict c.hdr hz (fuelFor f c n) c [] false rfl hI
    exact ⟨this.1.1, this.2.1⟩

/-- `import_dict`: afterwards the decoded buffer is empty and the dictionary is installed (or
there is no dictionary and nothing changed) -/
theorem importDict_ok (H : HashFn) (D : Decomp) (f : Bytes) (c c1 : Ctx) (d : Chunk)
    (hz : c.hdr.compType ≠ 0) (hI : Inv c) (hd : c.hdr.chunks.head? = some d) (hlen : d.len > 0)
    (h : importDict H D f c = some c1) :
    c1.hdr = c.hdr ∧ Inv c1 ∧ c1.dc = [] ∧ c1.dict.isSome = true := by
  unfold importDict at h
  simp only [hd] at h
  split at h
  · omega
  · have hraw := compReadRaw_ok H D f c d.len false hz hI
    revert h hraw
    generalize compReadRaw H D f c d.len false = r0
    intro h hraw
    split at h
    · cases h
    · simp only [Option.some.injEq] at h
      subst h
      exact ⟨hraw.1, hraw.2, rfl, rfl⟩

/-- **one `zck_read` call** (unit-decoded chunks) -/
theorem compRead_ok (H : HashFn) (D : Decomp) (f : Bytes) (c : Ctx) (n : Nat)
    (hz : c.hdr.compType ≠ 0) (hI : Inv c) (hD : InvD c) :
    (compRead H D f c n).2.hdr = c.hdr ∧ Inv (compRead H D f c n).2 ∧ InvD (compRead H D f c n).2 ∧
    CallOk H D c.hdr c.dc (compRead H D f c n).1 (compRead H D f c n).2 := by
  unfold compRead
  split
  · exact ⟨rfl, hI, hD, Or.inl (Rel.refl _ _ _ _)⟩
  split
  · exact ⟨rfl, hI, hD, Or.inl (Rel.refl _ _ _ _)⟩
  split
  · exact ⟨rfl, hI, hD, Or.inl (Rel.refl _ _ _ _)⟩
  split
  · exact ⟨rfl, hI, hD, Or.inl (Rel.refl _ _ _ _)⟩
  · rename_i d hd
    split
    · rename_i hneed
      have hdc : c.dc = [] := hD d hd hneed.1 hneed.2
      split
      · exact ⟨rfl, hI, hD, Or.inl (Rel.refl _ _ _ _)⟩
      · rename_i c1 himp
        obtain ⟨b1, b2, b3, b4⟩ := importDict_ok H D f c c1 d hz hI hd hneed.1 himp
        have := readLoop_ok H D f n true c.hdr hz (fuelFor f c1 n) c1 [] false b1 b2
        obtain ⟨a1, a2, a3⟩ := this
        refine ⟨a1.1, a2, ?_, ?_⟩
        · intro d' _ _ hn
          rw [a1.2] at hn
          cases hdd : c1.dict with
          | none => rw [hdd] at b4; cases b4
          | some x => rw [hdd] at hn; cases hn
        · rw [hdc]; simpa [b3] using a3
    · have := readLoop_ok H D f n true c.hdr hz (fuelFor f c n) c [] false rfl hI
      obtain ⟨a1, a2, a3⟩ := this
      rename_i hnn
      refine ⟨a1.1, a2, ?_, by simpa using a3⟩
      intro d' hd' hl' hn
      rw [a1.1] at hd'
      rw [hd] at hd'
      cases hd'
      rw [a1.2] at hn
      exact absurd ⟨hl', hn⟩ hnn

end Zck.Reader
