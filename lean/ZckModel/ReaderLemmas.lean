/- Helper lemmas about the reader model (property theorems: Props/C02, C14, C15). -/
import ZckModel.Reader

namespace Zck.Reader
open Zck Zck.Format

/-- the chunk checksum context has been fed exactly the stored bytes that are pending for the decoder -/
def I1 (c : Ctx) : Prop := c.chunkHash = some c.data ∨ (c.chunkHash = none ∧ c.data = [])

/-- `p` was produced by the codec from stored bytes that match the index checksum of a chunk of
the file, and has that chunk's declared size -/
def Good (H : HashFn) (D : Decomp) (hdr : Hdr) (p : Bytes) : Prop :=
  ∃ ch, ch ∈ hdr.chunks ∧ ∃ (stored : Bytes) (dict : Option Bytes) (d : Bytes),
    D stored dict = some p ∧ p.length = ch.len ∧ H hdr.chunkHashType stored = some d ∧
    (if ch.compLen = 0 then zeros d.length else d) = ch.digest

/-- `x` is made of contiguous pieces of decoded content of verified chunks: every byte of `x`
was produced by the codec from stored bytes that match the index checksum of a chunk -/
def Ver (H : HashFn) (D : Decomp) (hdr : Hdr) (x : Bytes) : Prop :=
  ∃ segs : List Bytes, x = segs.flatten ∧
    ∀ s ∈ segs, ∃ p pre suf, Good H D hdr p ∧ p = pre ++ s ++ suf

theorem Ver.nil (H : HashFn) (D : Decomp) (hdr : Hdr) : Ver H D hdr [] := ⟨[], rfl, by simp⟩

theorem Ver.good {H : HashFn} {D : Decomp} {hdr : Hdr} {p : Bytes} (h : Good H D hdr p) : Ver H D hdr p :=
  ⟨[p], by simp, by intro s hs; simp at hs; subst hs; exact ⟨s, [], [], h, by simp⟩⟩

theorem Ver.append {H : HashFn} {D : Decomp} {hdr : Hdr} {a b : Bytes}
    (ha : Ver H D hdr a) (hb : Ver H D hdr b) : Ver H D hdr (a ++ b) := by
  obtain ⟨sa, ea, ga⟩ := ha
  obtain ⟨sb, eb, gb⟩ := hb
  refine ⟨sa ++ sb, by rw [ea, eb, List.flatten_append], ?_⟩
  intro s hs
  rcases List.mem_append.mp hs with h | h
  · exact ga s h
  · exact gb s h

theorem Ver.take {H : HashFn} {D : Decomp} {hdr : Hdr} {a : Bytes} (k : Nat)
    (ha : Ver H D hdr a) : Ver H D hdr (a.take k) := by
  obtain ⟨segs, ea, ga⟩ := ha
  subst ea
  induction segs generalizing k with
  | nil => simpa using Ver.nil H D hdr
  | cons s rest ih =>
    simp only [List.flatten_cons, List.take_append]
    have hs : Ver H D hdr (s.take k) := by
      obtain ⟨p, pre, suf, gp, ep⟩ := ga s (by simp)
      refine ⟨[s.take k], by simp, ?_⟩
      intro t ht; simp at ht; subst ht
      refine ⟨p, pre, s.drop k ++ suf, gp, ?_⟩
      rw [ep]
      simp only [List.append_assoc]
      rw [← List.append_assoc (s.take k), List.take_append_drop]
    exact Ver.append hs (ih (k - s.length) (fun t ht => ga t (by simp [ht])))

theorem Ver.drop {H : HashFn} {D : Decomp} {hdr : Hdr} {a : Bytes} (k : Nat)
    (ha : Ver H D hdr a) : Ver H D hdr (a.drop k) := by
  obtain ⟨segs, ea, ga⟩ := ha
  subst ea
  induction segs generalizing k with
  | nil => simpa using Ver.nil H D hdr
  | cons s rest ih =>
    simp only [List.flatten_cons, List.drop_append]
    have hs : Ver H D hdr (s.drop k) := by
      obtain ⟨p, pre, suf, gp, ep⟩ := ga s (by simp)
      refine ⟨[s.drop k], by simp, ?_⟩
      intro t ht; simp at ht; subst ht
      refine ⟨p, pre ++ s.take k, suf, gp, ?_⟩
      rw [ep]
      simp only [List.append_assoc]
      rw [← List.append_assoc (s.take k), List.take_append_drop]
    exact Ver.append hs (ih (k - s.length) (fun t ht => ga t (by simp [ht])))

theorem chunkAt_mem (c : Ctx) (k : Nat) (ch : Chunk) (h : chunkAt c k = some ch) : ch ∈ c.hdr.chunks := by
  unfold chunkAt at h
  exact List.mem_of_getElem? h

/-- a chunk validation that neither fails the checksum nor errors has compared a real checksum with the index entry -/
theorem validateChunk_pos (H : HashFn) (c : Ctx) (ch : Chunk)
    (h1 : ¬ validateChunk H c ch = -1) (h2 : ¬ validateChunk H c ch < 1) :
    ∃ bs d, c.chunkHash = some bs ∧ H c.hdr.chunkHashType bs = some d ∧
      (if ch.compLen = 0 then zeros d.length else d) = ch.digest := by
  unfold validateChunk at h1 h2
  cases hb : c.chunkHash with
  | none => rw [hb] at h2; simp at h2
  | some bs =>
    rw [hb] at h1 h2
    simp only at h1 h2
    cases hd : H c.hdr.chunkHashType bs with
    | none => rw [hd] at h2; simp at h2
    | some d =>
      rw [hd] at h1 h2
      simp only at h1 h2
      by_cases hcmp : (if ch.compLen = 0 then zeros d.length else d) = ch.digest
      · exact ⟨bs, d, rfl, hd, hcmp⟩
      · simp [hcmp] at h1

/-- what a successful chunk end means (unit-decoded chunks): the decoder's output has the
declared size, was produced from exactly the bytes the checksum context was fed, and those
bytes match the index checksum; only then is it appended to the buffer handed out to callers -/
theorem endDchunk_ok (H : HashFn) (D : Decomp) (c : Ctx) (k : Nat) (ch : Chunk) (useDict : Bool) (c2 : Ctx)
    (hz : c.hdr.compType ≠ 0) (hI : I1 c) (hm : ch ∈ c.hdr.chunks)
    (h : endDchunk H D c k ch useDict = .ok c2) :
    c2.hdr = c.hdr ∧ c2.dict = c.dict ∧ I1 c2 ∧ c2.data = [] ∧ ∃ plain, Good H D c.hdr plain ∧ c2.dc = c.dc ++ plain := by
  unfold endDchunk at h
  by_cases hoom : c.hdr.compType ≠ 0 ∧ ch.len ≥ allocLimit
  · rw [if_pos hoom] at h; cases h
  rw [if_neg hoom] at h
  simp only [hz, ↓reduceIte] at h
  split at h
  · cases h
  · rename_i c1 hstep
    split at hstep
    · cases hstep
    · rename_i plain hD
      split at hstep
      · cases hstep
      · rename_i hlen
        simp only [Option.some.injEq] at hstep
        subst hstep
        split at h
        · cases h
        · split at h
          · cases h
          · rename_i hv1 hv2
            simp only [EndRes.ok.injEq] at h
            subst h
            refine ⟨rfl, rfl, Or.inl rfl, rfl, plain, ?_, rfl⟩
            -- the checksum comparison that passed
            unfold validateChunk at hv1 hv2
            simp only at hv1 hv2
            rcases hI with hI | ⟨hI, _⟩
            · rw [hI] at hv1 hv2
              simp only at hv1 hv2
              cases hd : H c.hdr.chunkHashType c.data with
              | none => rw [hd] at hv2; simp at hv2
              | some d =>
                rw [hd] at hv1 hv2
                simp only at hv1 hv2
                by_cases hcmp : (if ch.compLen = 0 then zeros d.length else d) = ch.digest
                · exact ⟨ch, hm, c.data, _, d, hD, by omega, hd, hcmp⟩
                · simp [hcmp] at hv1
            · rw [hI] at hv2; simp at hv2

/-- invariant of the reader between loop iterations -/
def Inv (c : Ctx) : Prop := I1 c ∧ (c.dataIdx = none → c.data = [])

/-- what one loop iteration preserves (unit-decoded chunks): the header, the invariant, and that
both the bytes copied to the caller's buffer and the bytes buffered for later calls are pieces of
decoded content of verified chunks -/
def StepOk (H : HashFn) (D : Decomp) (c : Ctx) : Step → Prop
  | .cont c' out' _ => c'.hdr = c.hdr ∧ Inv c' ∧ Ver H D c.hdr out' ∧ Ver H D c.hdr c'.dc
  | .done r c' => c'.hdr = c.hdr ∧ Inv c' ∧ Ver H D c.hdr r.bytes ∧ Ver H D c.hdr c'.dc

theorem stepOk_done (H : HashFn) (D : Decomp) (c : Ctx) (r : RdOut) (c' : Ctx) :
    StepOk H D c (.done r c') = (c'.hdr = c.hdr ∧ Inv c' ∧ Ver H D c.hdr r.bytes ∧ Ver H D c.hdr c'.dc) := rfl

theorem stepOk_cont (H : HashFn) (D : Decomp) (c : Ctx) (c' : Ctx) (out' : Bytes) (fin : Bool) :
    StepOk H D c (.cont c' out' fin) = (c'.hdr = c.hdr ∧ Inv c' ∧ Ver H D c.hdr out' ∧ Ver H D c.hdr c'.dc) := rfl

@[simp] theorem ensureHash_hdr (c : Ctx) : (ensureHash c).hdr = c.hdr := by unfold ensureHash; split <;> rfl
@[simp] theorem ensureHash_dc (c : Ctx) : (ensureHash c).dc = c.dc := by unfold ensureHash; split <;> rfl
@[simp] theorem ensureHash_data (c : Ctx) : (ensureHash c).data = c.data := by unfold ensureHash; split <;> rfl
@[simp] theorem ensureHash_dataIdx (c : Ctx) : (ensureHash c).dataIdx = c.dataIdx := by unfold ensureHash; split <;> rfl
theorem ensureHash_I1 (c : Ctx) (hI : I1 c) : (ensureHash c).chunkHash = some c.data := by
  unfold ensureHash
  rcases hI with h | ⟨h, hd⟩
  · simp [h]
  · simp [h, hd]
@[simp] theorem updFull_hdr (c : Ctx) (s : Bytes) : (updFull c s).hdr = c.hdr := by unfold updFull; split <;> rfl
@[simp] theorem updFull_dc (c : Ctx) (s : Bytes) : (updFull c s).dc = c.dc := by unfold updFull; split <;> rfl
@[simp] theorem updFull_data (c : Ctx) (s : Bytes) : (updFull c s).data = c.data := by unfold updFull; split <;> rfl
@[simp] theorem updFull_dataIdx (c : Ctx) (s : Bytes) : (updFull c s).dataIdx = c.dataIdx := by
  unfold updFull; split <;> rfl
@[simp] theorem updFull_chunkHash (c : Ctx) (s : Bytes) : (updFull c s).chunkHash = c.chunkHash := by
  unfold updFull; split <;> rfl

theorem stepRead_ok (H : HashFn) (D : Decomp) (f : Bytes) (n : Nat) (c : Ctx) (ch : Chunk) (out : Bytes)
    (ki : Nat) (hidx : c.dataIdx = some ki) (hI : I1 c) (ho : Ver H D c.hdr out) (hd : Ver H D c.hdr c.dc) :
    StepOk H D c (stepRead f n c ch out) := by
  unfold stepRead
  simp only
  generalize fileRead f c.pos (if c.dataLoc + n > ch.compLen then ch.compLen - c.dataLoc else n) = src
  have hI0 : I1 { c with pos := c.pos + src.length } := hI
  have hch := ensureHash_I1 _ hI0
  simp only at hch
  split
  · rw [stepOk_done]
    exact ⟨by simp, ⟨Or.inl (by simp [hch]), by simp [hidx]⟩, ho, by simpa using hd⟩
  · split
    · rw [stepOk_done]
      exact ⟨by simp, ⟨Or.inl (by simp [hch]), by simp [hidx]⟩, ho, by simpa using hd⟩
    · rw [stepOk_cont]
      exact ⟨by simp, ⟨Or.inl (by simp [hch, hashUpd]), by simp [hidx]⟩, ho, by simpa using hd⟩

theorem stepEnd_ok (H : HashFn) (D : Decomp) (c : Ctx) (ki : Nat) (ch : Chunk) (useDict : Bool) (out : Bytes)
    (fin : Bool) (hz : c.hdr.compType ≠ 0) (hI : Inv c) (hm : ch ∈ c.hdr.chunks)
    (ho : Ver H D c.hdr out) (hd : Ver H D c.hdr c.dc) :
    StepOk H D c (stepEnd H D c ki ch useDict out fin) := by
  unfold stepEnd
  split
  · rw [stepOk_done]; exact ⟨rfl, hI, ho, hd⟩
  · rw [stepOk_done]; exact ⟨rfl, hI, ho, Ver.nil _ _ _⟩
  · rw [stepOk_done]; exact ⟨rfl, hI, ho, Ver.nil _ _ _⟩
  · rename_i c2 hok
    obtain ⟨h1, _, h2, h3, plain, hg, hdc⟩ := endDchunk_ok H D c ki ch useDict c2 hz hI.1 hm hok
    rw [stepOk_cont]
    have hv : Ver H D c.hdr c2.dc := by rw [hdc]; exact Ver.append hd (Ver.good hg)
    split
    · exact ⟨h1, ⟨h2, fun _ => h3⟩, ho, hv⟩
    · exact ⟨h1, ⟨h2, fun _ => h3⟩, ho, hv⟩

/-- **one iteration** of the `comp_read` loop (unit-decoded chunks) -/
theorem step_ok (H : HashFn) (D : Decomp) (f : Bytes) (n : Nat) (useDict : Bool) (c : Ctx) (out : Bytes)
    (fin : Bool) (hz : c.hdr.compType ≠ 0) (hI : Inv c) (ho : Ver H D c.hdr out) (hd : Ver H D c.hdr c.dc) :
    StepOk H D c (step H D f n useDict c out fin) := by
  unfold step
  simp only
  split
  · rw [stepOk_done]; exact ⟨rfl, hI, ho, hd⟩
  split
  · rw [stepOk_done]; exact ⟨rfl, hI, ho, hd⟩
  generalize min (n - out.length) c.dc.length = k
  have ho' : Ver H D c.hdr (out ++ c.dc.take k) := Ver.append ho (Ver.take k hd)
  have hd' : Ver H D c.hdr (c.dc.drop k) := Ver.drop k hd
  split
  · rw [stepOk_done]; exact ⟨rfl, hI, ho', hd'⟩
  split
  · rw [stepOk_cont]; exact ⟨rfl, hI, ho', hd'⟩
  split
  · rw [stepOk_done]; exact ⟨rfl, hI, ho', hd'⟩
  split
  · rename_i hc; exact absurd hc.1 hz
  split
  · rename_i hnone
    have hdat : c.data = [] := hI.2 hnone
    split
    · rw [stepOk_done]
      exact ⟨rfl, ⟨Or.inl (by simp [hdat]), fun _ => hdat⟩, ho', hd'⟩
    · rw [stepOk_cont]
      exact ⟨rfl, ⟨Or.inl (by simp [hdat]), fun _ => hdat⟩, ho', hd'⟩
  · rename_i ki hsome
    split
    · rw [stepOk_done]; exact ⟨rfl, hI, ho', hd'⟩
    · rename_i ch hch
      have hm : ch ∈ c.hdr.chunks := chunkAt_mem _ ki ch hch
      split
      · exact stepEnd_ok H D { c with dc := c.dc.drop k } ki ch useDict (out ++ c.dc.take k) fin hz hI hm ho' hd'
      · split
        · rw [stepOk_done]; exact ⟨rfl, hI, ho', hd'⟩
        · exact stepRead_ok H D f n { c with dc := c.dc.drop k } ch (out ++ c.dc.take k) ki hsome hI.1 ho' hd'

theorem readLoop_ok (H : HashFn) (D : Decomp) (f : Bytes) (n : Nat) (useDict : Bool) (hdr : Hdr)
    (hz : hdr.compType ≠ 0) :
    ∀ (fuel : Nat) (c : Ctx) (out : Bytes) (fin : Bool), c.hdr = hdr → Inv c →
      Ver H D hdr out → Ver H D hdr c.dc →
      (readLoop H D f n useDict fuel c out fin).2.hdr = hdr ∧
      Inv (readLoop H D f n useDict fuel c out fin).2 ∧
      Ver H D hdr (readLoop H D f n useDict fuel c out fin).1.bytes ∧
      Ver H D hdr (readLoop H D f n useDict fuel c out fin).2.dc
  | 0, c, out, fin, hh, hI, ho, hd => by
    unfold readLoop
    exact ⟨hh, hI, ho, hd⟩
  | fuel + 1, c, out, fin, hh, hI, ho, hd => by
    unfold readLoop
    have hs := step_ok H D f n useDict c out fin (hh ▸ hz) hI (hh ▸ ho) (hh ▸ hd)
    revert hs
    generalize step H D f n useDict c out fin = st
    intro hs
    cases st with
    | done r c' =>
      rw [stepOk_done] at hs
      obtain ⟨h1, h2, h3, h4⟩ := hs
      rw [hh] at h3 h4
      exact ⟨by simp [h1, hh], h2, h3, h4⟩
    | cont c' out' fin' =>
      rw [stepOk_cont] at hs
      obtain ⟨h1, h2, h3, h4⟩ := hs
      rw [hh] at h3 h4
      exact readLoop_ok H D f n useDict hdr hz fuel c' out' fin' (by rw [h1, hh]) h2 h3 h4

theorem compReadRaw_ok (H : HashFn) (D : Decomp) (f : Bytes) (c : Ctx) (n : Nat) (useDict : Bool)
    (hz : c.hdr.compType ≠ 0) (hI : Inv c) (hd : Ver H D c.hdr c.dc) :
    (compReadRaw H D f c n useDict).2.hdr = c.hdr ∧ Inv (compReadRaw H D f c n useDict).2 ∧
    Ver H D c.hdr (compReadRaw H D f c n useDict).2.dc := by
  unfold compReadRaw
  split
  · exact ⟨rfl, hI, hd⟩
  split
  · exact ⟨rfl, hI, hd⟩
  split
  · exact ⟨rfl, hI, hd⟩
  · have := readLoop_ok H D f n useDict c.hdr hz (fuelFor f c n) c [] false rfl hI (Ver.nil _ _ _) hd
    exact ⟨this.1, this.2.1, this.2.2.2⟩

/-- `import_dict`: whatever happens, the header is unchanged, the invariant holds and what is
buffered afterwards is verified content (a successful import empties the buffer) -/
theorem importDict_ok (H : HashFn) (D : Decomp) (f : Bytes) (c : Ctx)
    (hz : c.hdr.compType ≠ 0) (hI : Inv c) (hd : Ver H D c.hdr c.dc) :
    (importDict H D f c).2.hdr = c.hdr ∧ Inv (importDict H D f c).2 ∧ Ver H D c.hdr (importDict H D f c).2.dc := by
  unfold importDict
  split
  · exact ⟨rfl, hI, hd⟩
  · split
    · exact ⟨rfl, hI, hd⟩
    · rename_i d _ _
      have hraw := compReadRaw_ok H D f c d.len false hz hI hd
      revert hraw
      generalize compReadRaw H D f c d.len false = r0
      intro hraw
      simp only
      split
      · exact ⟨hraw.1, hraw.2.1, hraw.2.2⟩
      · exact ⟨hraw.1, hraw.2.1, Ver.nil _ _ _⟩

/-- **one `zck_read` call** (unit-decoded chunks): the bytes it copies to the caller and the
bytes it leaves buffered are pieces of decoded content of verified chunks -/
theorem compRead_ok (H : HashFn) (D : Decomp) (f : Bytes) (c : Ctx) (n : Nat)
    (hz : c.hdr.compType ≠ 0) (hI : Inv c) (hd : Ver H D c.hdr c.dc) :
    (compRead H D f c n).2.hdr = c.hdr ∧ Inv (compRead H D f c n).2 ∧
    Ver H D c.hdr (compRead H D f c n).1.bytes ∧ Ver H D c.hdr (compRead H D f c n).2.dc := by
  unfold compRead
  split
  · exact ⟨rfl, hI, Ver.nil _ _ _, hd⟩
  split
  · exact ⟨rfl, hI, Ver.nil _ _ _, hd⟩
  split
  · exact ⟨rfl, hI, Ver.nil _ _ _, hd⟩
  split
  · exact ⟨rfl, hI, Ver.nil _ _ _, hd⟩
  · split
    · split
      · exact ⟨rfl, hI, Ver.nil _ _ _, hd⟩
      · have himp := importDict_ok H D f c hz hI hd
        revert himp
        generalize importDict H D f c = r
        intro himp
        obtain ⟨ok, c1⟩ := r
        cases ok with
        | false => exact ⟨himp.1, himp.2.1, Ver.nil _ _ _, himp.2.2⟩
        | true =>
          simp only at himp ⊢
          exact readLoop_ok H D f n true c.hdr hz (fuelFor f c1 n) c1 [] false himp.1 himp.2.1 (Ver.nil _ _ _) himp.2.2
    · exact readLoop_ok H D f n true c.hdr hz (fuelFor f c n) c [] false rfl hI (Ver.nil _ _ _) hd

end Zck.Reader
