/- C08 — predicate (definitions only), stated on the files before/after, not on the model -/
import ZckModel.Copy
import ZckModel.Pred.Read

namespace Zck.PredCopy
open Zck Zck.Format

/-- is offset `i` inside the stored extent of one of the chunks selected by `sel`? -/
def inExtents (h : Hdr) (sel : Nat → Bool) (i : Nat) : Bool :=
  h.chunks.zipIdx.any fun (c, k) => sel k && decide (h.lead + h.headerLen + c.start ≤ i ∧ i < h.lead + h.headerLen + c.start + c.compLen)

/-- **C08**: after copying from any sources —
* a chunk that became valid has, at its extent, bytes that hash to the target's index checksum;
* chunks valid before are still valid;
* every target byte outside the extents of the chunks that were not valid before is unchanged
  (header and already valid chunks), and the file is not longer than header + data unless it was;
* the sources are unchanged. -/
def c08_ok (H : HashFn) (tgtBefore tgtAfter : Bytes) (validBefore validAfter : List Int) (srcSame : Bool) : Bool :=
  match parse H tgtBefore with
  | none => false
  | some h =>
    let okValid := h.chunks.zipIdx.all fun (c, k) =>
      if validAfter.getD k 0 = 1 ∧ validBefore.getD k 0 ≠ 1 then (storedChecked H h tgtAfter c).isSome
      else if validBefore.getD k 0 = 1 then validAfter.getD k 0 == 1
      else true
    let n := max tgtBefore.length tgtAfter.length
    let okConfined := (List.range n).all fun i =>
      inExtents h (fun k => validBefore.getD k 0 != 1) i || tgtBefore.getD i 0 == tgtAfter.getD i 0
    let okLen := tgtAfter.length ≤ max tgtBefore.length (h.lead + h.headerLen + h.dataLen)
    okValid && okConfined && okLen && srcSame && decide (tgtBefore.length ≤ tgtAfter.length)

end Zck.PredCopy
