/-
C20 property predicates (definitions only, no proofs): evaluated by the driver on the
IMPLEMENTATION's output and used as the statement of the theorems in Props/C20.lean.
-/
import ZckModel.Compint

namespace Zck.Compint
/-- the window of the buffer the decoder is allowed to look at -/
def window (m : Bytes) (pos maxLen : Nat) : Bytes := (m.take maxLen).drop pos
end Zck.Compint

namespace Zck.C20
open Zck Zck.Compint

/-- The property's demand on one decode call, as a function of the bytes the decoder may
look at (`w` = buffer from the cursor to the end of the buffer it was given): the exact
mathematical value and length of the encoding, or failure when it is unterminated within the
buffer, longer than ten bytes, or does not fit the destination (`limit` = 2^64 or 2^31). -/
def specDec (w : Bytes) (limit : Nat) : Res (Nat × Nat) :=
  match value w with
  | none => .err
  | some (v, n) => if n ≤ 10 ∧ v < limit then .ok (v, n) else .err

/-- decidable form used by the driver on the IMPLEMENTATION's output -/
def c20_dec_ok (m : Bytes) (pos maxLen : Nat) (limit : Nat) (out : Res (Nat × Nat)) : Bool :=
  out == specDec (window m pos maxLen) limit


end Zck.C20
