/-
C06 / C07 / C13 — predicates (definitions only), stated against the INDEPENDENT reference parser
`Format.parse`, never against the model of the C code.
-/
import ZckModel.Format
import ZckModel.Proto

namespace Zck.PredHdr
open Zck Zck.Format

/-- what the spec says about the lead alone: (checksum type, header size, stored checksum,
position of the stored checksum, lead length) -/
def specLead (f : Bytes) : Option (Nat × Nat × Bytes × Nat × Nat) := do
  let (magic, r0) ← takeN f 5
  if magic != magicFile && magic != magicDet then none
  let (ht, r1) ← ci r0 (2^31)
  let ds ← hsize ht
  let (hsz, r2) ← ci r1 (2^64)
  let loc := f.length - r2.length
  let (hd, _) ← takeN r2 ds
  some (ht, hsz, hd, loc, loc + ds)

/-- C06: the stored checksum equals the checksum, computed as the format specifies, of all
header bytes -/
def sealed (H : HashFn) (f : Bytes) : Bool :=
  match specLead f with
  | none => false
  | some (ht, hsz, hd, loc, lead) =>
    if f.length < lead + hsz then false else
    H ht (magicFile ++ (f.take loc).drop 5 ++ (f.drop lead).take hsz) == some hd

/-- **C06**: a file opens only if it is sealed -/
def c06_ok (H : HashFn) (f : Bytes) (opened : Bool) : Bool := !opened || sealed H f

/-! ### C07 -/

def isHex (c : UInt8) : Bool :=
  (48 ≤ c.toNat && c.toNat ≤ 57) || (97 ≤ c.toNat && c.toNat ≤ 102) || (65 ≤ c.toNat && c.toNat ≤ 70)

def hexDigitVal (c : UInt8) : Nat :=
  if c.toNat ≤ 57 then c.toNat - 48 else if c.toNat ≤ 70 then c.toNat - 55 else c.toNat - 87

/-- value of a string of hex digit pairs -/
def fromHex : Bytes → Bytes
  | a :: b :: rest => UInt8.ofNat (hexDigitVal a * 16 + hexDigitVal b) :: fromHex rest
  | _ => []

/-- the pins are acceptable to the setters and equal the file's stored values -/
def pinsMatch (f : Bytes) (t : Option Int) (d : Option Bytes) (n : Option Int) : Bool :=
  match specLead f with
  | none => false
  | some (ht, hsz, hd, _, lead) =>
    (match t with | none => true | some t => t == (ht : Int)) &&
    (match d with
     | none => true
     | some s => s.length == 2 * hd.length && s.all isHex && fromHex s == hd) &&
    (match n with | none => true | some n => n == ((lead + hsz : Nat) : Int))

/-- setter ordering rule: a digest can only be pinned after (and with) a type -/
def orderOk (t : Option Int) (d : Option Bytes) (typeFirst : Bool) : Bool :=
  match d with
  | none => true
  | some _ => t.isSome && typeFirst

/-- **C07**: the pinned open succeeds iff the pins are well-formed, set in the legal order, equal
the file's stored values, and the file itself opens (is parseable and sealed) -/
def c07_ok (H : HashFn) (f : Bytes) (t : Option Int) (d : Option Bytes) (n : Option Int)
    (typeFirst : Bool) (opened : Bool) : Bool :=
  opened == (orderOk t d typeFirst && pinsMatch f t d n && (parse H f).isSome)

/-! ### C13 -/

def hexOf (bs : Bytes) : String :=
  String.ofList (bs.foldr (fun b acc => Proto.hexChar (b.toNat / 16) :: Proto.hexChar (b.toNat % 16) :: acc) [])

/-- everything the API reports about an opened file, in the harness's canonical text form -/
def report (h : Hdr) : String :=
  let hdrLen := h.lead + h.headerLen
  let cs := h.chunks.map fun c =>
    s!"{c.number}:{hexOf c.digest}:{match c.udigest with | some u => hexOf u | none => "-"}:{c.compLen}:{c.len}:{c.start + hdrLen}"
  s!"det={if h.detached then 1 else 0} ft={h.hashType} ct={h.chunkHashType} flags={h.flags} comp={h.compType} " ++
  s!"lead={h.lead} hdr={hdrLen} data={h.dataLen} total={hdrLen + h.dataLen} hd={hexOf h.headerDigest} " ++
  s!"dd={hexOf h.dataDigest} cnt={h.count} chunks={if cs.isEmpty then "-" else ";".intercalate cs}"

/-- **C13**: the report equals what the reference parser reads; no report when it rejects -/
def c13_ok (H : HashFn) (f : Bytes) (reported : Option String) : Bool :=
  reported == (parse H f).map report

end Zck.PredHdr
