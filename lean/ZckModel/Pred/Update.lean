/- C04 / C11 — predicate (definitions only), stated on what the update procedure requested and left on disk -/
import ZckModel.Update
import ZckModel.Pred.Copy

namespace Zck.PredUpd
open Zck Zck.Format

/-- "a-b,c-d" → inclusive ranges -/
def parseRanges (s : String) : Option (List (Nat × Nat)) :=
  if s == "-" || s.isEmpty then some [] else
  (s.splitOn ",").mapM fun t =>
    match t.splitOn "-" with
    | [a, b] => do some ((← a.toNat?), (← b.toNat?))
    | _ => none

/-- sort (insertion, by start) and merge touching or overlapping inclusive ranges -/
def insertR (r : Nat × Nat) : List (Nat × Nat) → List (Nat × Nat)
  | [] => [r]
  | x :: xs => if r.1 ≤ x.1 then r :: x :: xs else x :: insertR r xs

def coalesce (rs : List (Nat × Nat)) : List (Nat × Nat) :=
  let sorted := rs.foldl (fun acc r => insertR r acc) []
  let merged := sorted.foldl (fun (acc : List (Nat × Nat)) r =>
    match acc with
    | (a, b) :: rest => if r.1 ≤ b + 1 then (a, max b r.2) :: rest else r :: acc
    | [] => [r]) []
  merged.reverse

def totalLen (rs : List (Nat × Nat)) : Nat := rs.foldl (fun n r => n + (r.2 - r.1 + 1)) 0

/-- the chunks of the new file that have to come from the server: not present (verified) in the target once the new
header is in place, and without a chunk of equal checksum and sizes in the old file -/
def needed (H : HashFn) (hb : Hdr) (t2 : Bytes) (A : Option (Hdr × Bytes)) : List (Nat × Nat) :=
  hb.chunks.filterMap fun c =>
    if c.compLen = 0 then none else
    if (storedChecked H hb t2 c).isSome then none else
    let inA := match A with
      | some (ha, fa) => ha.chunks.any fun a =>
          a.digest == c.digest && a.compLen == c.compLen && a.len == c.len && ha.chunkHashType == hb.chunkHashType &&
          (storedChecked H ha fa a).isSome
      | none => false
    if inA then none else
    let off := hb.lead + hb.headerLen + c.start
    some (off, off + c.compLen - 1)

/-- **C04 / C11** on one run of the procedure from initial target `tgt0` (for C11: the target as the interruption left
it).  `B` must itself be a valid file (every chunk verifies), otherwise nothing is demanded.
* the run finished without error, the target is byte-identical to `B`, whole-data validation reported 1, nothing missing;
* chunks the scan marked valid really were present (no partially written chunk is trusted);
* the body bytes requested, over all rounds, are exactly the extents of the needed chunks, none twice. -/
def c04_ok (H : HashFn) (A : Option Bytes) (B tgt0 : Bytes) (scanFlags : List Int) (reqs : List String) (vd : Option Int)
    (missing : Nat) (err : Bool) (final : Bytes) (exact : Bool := true) : Bool :=
  match parse H B with
  | none => true
  | some hb =>
    if ¬ hb.chunks.all (fun c => (storedChecked H hb B c).isSome) then true else
    let total := hb.lead + hb.headerLen
    let t2 := Copy.writeAt tgt0 0 (B.take (max total Zck.Gen.MIN_DOWNLOAD_SIZE))
    let a := A.bind fun fa => (parse H fa).map fun ha => (ha, fa)
    let okEnd := !err && final == B && vd == some 1 && missing == 0
    let okScan := (hb.chunks.zipIdx.all fun (c, k) => scanFlags.getD k 0 != 1 || (storedChecked H hb t2 c).isSome)
    let rr := reqs.mapM parseRanges
    let okReq := match rr with
      | none => false
      | some rl =>
        let all := rl.flatten
        let want := needed H hb t2 a
        -- (a retry after a dropped connection asks again for what the dropped transfer did not complete: only coverage then)
        if exact then coalesce all == coalesce want && totalLen all == totalLen want
        else coalesce all == coalesce want
    okEnd && okScan && okReq

end Zck.PredUpd
