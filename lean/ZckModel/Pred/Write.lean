/- C01 / C16 — predicates (definitions only) -/
import ZckModel.Writer

namespace Zck.PredWrite
open Zck Zck.Writer

/-- **C16 (sizes)**: in automatic mode every chunk other than the last respects the effective
minimum and maximum (`lens` = uncompressed sizes of the data chunks, in order); in manual mode no
chunk exceeds the configured maximum -/
def c16_bounds_ok (cfg : Cfg) (lens : List Nat) : Bool :=
  let c := cfg.norm
  if c.manual then lens.all (· ≤ c.chunkMax)
  else lens.dropLast.all (fun l => c.autoMin ≤ l && l ≤ c.autoMax) && lens.all (· ≤ c.autoMax)

end Zck.PredWrite
