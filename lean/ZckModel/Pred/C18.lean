/- C18 — predicate (definitions only): every backend's digest equals the standard algorithm's -/
import ZckModel.Sha.Bundled

namespace Zck.C18
open Zck Zck.Sha

/-- the property on one HASH case: the digest an implementation reported for `segs` under hash
type `t` is the standard digest of the concatenation -/
def c18_ok (t : Nat) (segs : List Bytes) (digest : Bytes) : Bool :=
  zckHash t segs.flatten == some digest

end Zck.C18
