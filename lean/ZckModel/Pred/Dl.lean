/- C05 / C17 — predicates (definitions only), stated on the target file before/after the callbacks and on
what the callbacks returned, not on the model -/
import ZckModel.Dl
import ZckModel.Pred.Copy

namespace Zck.PredDl
open Zck Zck.Format

/-- what the generator knows about the response it built -/
inductive Expect where
  | wf                 -- well-formed response to the request
  | bad (k : Nat)      -- well-formed except that the bytes sent for chunk `k` are damaged
  | any                -- arbitrary bytes
deriving Repr, DecidableEq

def extentZero (h : Hdr) (f : Bytes) (c : Chunk) : Bool :=
  ((f.drop (h.lead + h.headerLen + c.start)).take c.compLen).all (· == 0)

/-- **C05 / C17** on one feeding session.  `flags0` / `flags1`: the chunk marks before / after; `req`: the requested chunks;
`accepted`: every callback returned the length it was given.
* confinement: a byte differs only inside the extent of a requested chunk that was not valid before; the file does not grow
  beyond header + data;
* a chunk that became valid holds, at its extent, bytes that hash to its index checksum; a valid chunk stays valid;
* a chunk that became failed is zero-filled and a callback signalled an error;
* well-formed response: everything accepted and every requested chunk valid;
* damaged chunk `k`: `k` is marked failed (hence zero-filled, error signalled). -/
def c05_ok (H : HashFn) (before after : Bytes) (flags0 flags1 : List Int) (req : List Nat) (accepted : Bool)
    (expect : Expect) : Bool :=
  match parse H before with
  | none => false
  | some h =>
    let n := max before.length after.length
    let sel : Nat → Bool := fun k => flags0.getD k 0 != 1 && req.contains k
    let okConfined := ((before ++ zeros (n - before.length)).zip (after ++ zeros (n - after.length))).zipIdx.all fun ((x, y), i) =>
      x == y || PredCopy.inExtents h sel i
    let okLen := decide (after.length ≤ max before.length (h.lead + h.headerLen + h.dataLen)) && decide (before.length ≤ after.length)
    let okValid := h.chunks.zipIdx.all fun (c, k) =>
      if flags0.getD k 0 = 1 then flags1.getD k 0 == 1
      else if flags1.getD k 0 = 1 then (storedChecked H h after c).isSome
      else true
    let okFailed := h.chunks.zipIdx.all fun (c, k) =>
      if flags1.getD k 0 = -1 ∧ flags0.getD k 0 ≠ -1 then extentZero h after c && !accepted else true
    let okExpect := match expect with
      | .wf => accepted && req.all fun k => flags1.getD k 0 == 1
      | .bad k => flags1.getD k 0 == -1 && !accepted
      | .any => true
    okConfined && okLen && okValid && okFailed && okExpect && decide (flags1.length = h.chunks.length)

end Zck.PredDl
