/-
C02 / C09 / C14 / C15 — predicates (definitions only), stated against the INDEPENDENT reference
decoder `Format.decode` / `Format.plainChecked`, never against the model of the C reader.
-/
import ZckModel.Format
import ZckModel.Pred.Hdr
import ZckModel.Sha.Spec

namespace Zck.PredRead
open Zck Zck.Format

/-- how both sides print byte strings: hex when at most 64 bytes, `h:<sha256>` otherwise -/
def showBytes (bs : Bytes) : String :=
  if bs.isEmpty then "-"
  else if bs.length ≤ 64 then PredHdr.hexOf bs
  else "h:" ++ PredHdr.hexOf (Sha.hash Sha.sha256A bs)

/-- **C02**: if open, every read up to end of stream, and close all reported success, the bytes
returned are exactly the reference decoder's content (so a file the reference decoder rejects is
never read "successfully") -/
def c02_ok (H : HashFn) (D : Decomp) (f : Bytes) (rets : List Int) (out : String) (closed : Bool) : Bool :=
  let success := rets.all (· ≥ 0) && rets.getLast? == some 0 && closed
  if !success then true else
  -- a complete file whose identifier was switched to that of a detached header may be refused or read as what it holds
  match decodeAny H D f with
  | none => false
  | some content => showBytes content == out

/-- the data chunks, in order, up to (not including) the first one that fails verification or
does not decode to its declared size -/
def verifiedPrefix (H : HashFn) (D : Decomp) (h : Hdr) (f : Bytes) : List Bytes :=
  match h.chunks with
  | [] => []
  | d :: rest =>
    match plainChecked H D h f none d with
    | none => []
    | some dp =>
      let dict := if d.len = 0 then none else some dp
      let rec go : List Chunk → List Bytes
        | [] => []
        | c :: cs => match plainChecked H D h f dict c with
          | none => []
          | some p => p :: go cs
      go rest

/-- **C15**: with unit-decoded (zstd) chunks, everything successful reads returned — `n` bytes,
printed as `out` — is a prefix of the content of the chunks that verify, in order; nothing
decoded from a chunk whose stored bytes do not match its checksum is ever released -/
def c15_ok (H : HashFn) (D : Decomp) (f : Bytes) (n : Nat) (out : String) : Bool :=
  match parse H f with
  | none => n == 0
  | some h =>
    if h.compType ≠ 2 then true else
    let good := (verifiedPrefix H D h f).flatten
    decide (n ≤ good.length) && showBytes (good.take n) == out

/-- **C14**: one chunk request on a VALID file: data requests return the chunk's slice of the
content with its declared size, stored-data requests the stored bytes (whose checksum is the index
checksum), whatever was requested before -/
def c14_ok (H : HashFn) (D : Decomp) (f : Bytes) (k : Nat) (comp : Bool) (ret : Int) (out : String) : Bool :=
  match parse H f with
  | none => false
  | some h =>
    match h.chunks[k]?, h.chunks.head? with
    | some c, some d =>
      if c.len = 0 then ret == 0 else
      if comp then
        match storedChecked H h f c with
        | some st => ret == (c.compLen : Int) && showBytes st == out
        | none => false
      else
        let dict := if d.len = 0 then none else plainChecked H D h f none d
        match plainChecked H D h f (if k = 0 then none else dict) c with
        | some p => ret == (c.len : Int) && showBytes p == out
        | none => false
    | _, _ => false

/-- **C14 (short buffer)**: a data request with a buffer of `n` bytes, smaller than the chunk, returns the first `n` bytes of the chunk's content -/
def c14_prefix_ok (H : HashFn) (D : Decomp) (f : Bytes) (k n : Nat) (ret : Int) (out : String) : Bool :=
  match parse H f with
  | none => false
  | some h =>
    match h.chunks[k]?, h.chunks.head? with
    | some c, some d =>
      if c.len = 0 then ret == 0 else
      let dict := if d.len = 0 then none else plainChecked H D h f none d
      match plainChecked H D h f (if k = 0 then none else dict) c with
      | some p => ret == ((min n c.len : Nat) : Int) && showBytes (p.take n) == out
      | none => false
    | _, _ => false

/-- what a scan must report for chunk `c`: 1 iff its stored bytes are all there and hash to the index checksum -/
def chunkTruth (H : HashFn) (h : Hdr) (f : Bytes) (c : Chunk) : Int :=
  if (storedChecked H h f c).isSome then 1 else -1

/-- **C09 (scan)**: flags and verdict of `zck_validate_checksums` / `zck_find_valid_chunks`.
`before` are the flags before the scan (a detached header scans only the dictionary entry). -/
def c09_scan_ok (H : HashFn) (f : Bytes) (ret : Int) (flags : List Int) (before : List Int) : Bool :=
  match parse H f with
  | none => false
  | some h =>
    let truth := h.chunks.map (chunkTruth H h f)
    if h.detached then
      flags.head? == truth.head? && flags.drop 1 == before.drop 1 &&
        ret == (if truth.head? == some 1 then 1 else -1)
    else
      let allGood := truth.all (· == 1)
      let dataOk := if h.flags / 4 % 2 = 1 then true else
        match slice f (h.lead + h.headerLen) h.dataLen with
        | some body => H h.hashType body == some h.dataDigest
        | none => false
      if allGood && !dataOk then flags == truth.map (fun _ => -1) && ret == -1
      else flags == truth && ret == (if allGood then 1 else -1)

/-- **C09 (data checksum)**: verdict of `zck_validate_data_checksum` (under the uncompressed-source
flag it is the scan); flags are not touched otherwise -/
def c09_data_ok (H : HashFn) (f : Bytes) (ret : Int) (flags before : List Int) : Bool :=
  match parse H f with
  | none => false
  | some h =>
    if h.flags / 4 % 2 = 1 then c09_scan_ok H f ret flags before else
    let dataOk := match slice f (h.lead + h.headerLen) h.dataLen with
      | some body => H h.hashType body == some h.dataDigest
      | none => false
    flags == before && ret == (if dataOk then 1 else -1)

/-- **C09 (reads after validations)**: a full read (+ close) after any validations returns the
content and verdict of a read without them, i.e. the reference decoder's -/
def c09_read_ok (H : HashFn) (D : Decomp) (f : Bytes) (ret : Int) (n : Nat) (out : String) (closed : Bool) : Bool :=
  match decode H D f with
  | some content => ret == 0 && n == content.length && showBytes content == out && closed
  | none => !(ret == 0 && closed)

end Zck.PredRead
