/-
C10 — specification and decidable predicate (definitions only, no proofs).
The specification is written from the property statement, not from range.c: the request is the
coalesced list of the file extents of a prefix of the missing chunks.
-/
import ZckModel.Range

namespace Zck.C10
open Zck Zck.Range

/-- a missing chunk's extent in the file: chunk number, first byte, stored size -/
structure Ext where
  number : Nat
  start  : Nat
  len    : Nat
deriving Repr, DecidableEq

/-- the missing chunks that have bytes to request, in file order -/
def missingExt (hdrLen : Nat) (chunks : List Chunk) : List Ext :=
  (chunks.filter (fun c => c.valid = 0 ∧ c.compLen ≠ 0)).map
    (fun c => ⟨c.number, c.start + hdrLen, c.compLen⟩)

/-- append the inclusive range `[s,e]` to an ascending list, merging it into the last range
when it starts right after it -/
def snoc : List (Nat × Nat) → Nat → Nat → List (Nat × Nat)
  | [], s, e => [(s, e)]
  | [p], s, e => if p.2 + 1 = s then [(p.1, e)] else [p, (s, e)]
  | p :: q :: r, s, e => p :: snoc (q :: r) s e

/-- the coalesced inclusive byte ranges of a list of ascending extents -/
def specRangesFrom (rs : List (Nat × Nat)) : List Ext → List (Nat × Nat)
  | [] => rs
  | x :: rest => specRangesFrom (snoc rs x.start (x.start + x.len - 1)) rest

def specRanges (exts : List Ext) : List (Nat × Nat) := specRangesFrom [] exts

/-- comma separated `start-end` list, at the level of characters -/
def specChars : List (Nat × Nat) → List Char
  | [] => []
  | [p] => (toString p.1).toList ++ '-' :: (toString p.2).toList
  | p :: q :: r => (toString p.1).toList ++ '-' :: (toString p.2).toList ++ ',' :: specChars (q :: r)

/-- what `zck_get_missing_range` + `zck_get_range_char` + `zck_get_range_count` + the range
index may report for the covered prefix `exts` -/
def specSt (exts : List Ext) : RSt :=
  ⟨specRanges exts, (specRanges exts).length, exts.map (fun x => (x.number, x.len))⟩

/-- observable output of one RANGE op: range string (`none` = NULL), range count, range index -/
structure Out where
  text  : Option String
  count : Nat
  index : List (Nat × Nat)
deriving Repr, DecidableEq

def specOut (exts : List Ext) : Out :=
  let rs := specRanges exts
  ⟨if rs.isEmpty then none else some (String.ofList (specChars rs)), rs.length,
   exts.map (fun x => (x.number, x.len))⟩

def imax (limit : Int) : Nat := if limit ≤ 1 then 1 else limit.toNat

/-- The property, decidable: the output is the specified request for a prefix of the missing
chunks — all of them when unlimited, at least one when any is missing, and no more separate
ranges than max(limit, 1). -/
def c10_ok (hdrLen : Nat) (chunks : List Chunk) (limit : Int) (out : Out) : Bool :=
  let exts := missingExt hdrLen chunks
  let k := out.index.length
  decide (k ≤ exts.length) &&
  (decide (limit ≥ 0) || k == exts.length) &&
  (exts.isEmpty || decide (0 < k)) &&
  (decide (limit < 0) || decide ((specRanges (exts.take k)).length ≤ imax limit)) &&
  (out == specOut (exts.take k))

/-- output of the model in the same shape -/
def modelOut (hdrLen : Nat) (chunks : List Chunk) (limit : Int) : Out :=
  let st := missing hdrLen chunks limit
  ⟨if st.items.isEmpty then none else render st.items, st.count, st.index⟩

end Zck.C10
