/- Helper lemmas for C10 (the property theorems are in Props/C10.lean). -/
import ZckModel.Range
import ZckModel.Pred.C10

namespace Zck.C10
open Zck Zck.Range

/-- ascending, disjoint and non-adjacent inclusive ranges -/
def Sorted : List (Nat × Nat) → Prop
  | [] => True
  | [a] => a.1 ≤ a.2
  | a :: b :: r => a.1 ≤ a.2 ∧ a.2 + 1 < b.1 ∧ Sorted (b :: r)

def EndsBelow (items : List (Nat × Nat)) (s : Nat) : Prop := ∀ p ∈ items, p.2 < s

def covers (items : List (Nat × Nat)) (x : Nat) : Prop := ∃ p ∈ items, p.1 ≤ x ∧ x ≤ p.2

theorem Sorted.tail {a : Nat × Nat} {r : List (Nat × Nat)} (h : Sorted (a :: r)) : Sorted r := by
  cases r with
  | nil => trivial
  | cons b r => exact h.2.2

theorem Sorted.head {a : Nat × Nat} {r : List (Nat × Nat)} (h : Sorted (a :: r)) : a.1 ≤ a.2 := by
  cases r with
  | nil => exact h
  | cons b r => exact h.1

/-! ### the walk of range_add reaches the end when every range lies below the new one -/

theorem walk_append (s e : Nat) (items : List (Nat × Nat)) (hs : Sorted items)
    (hb : EndsBelow items s) : walk s e items = (items ++ [(s, e)], true) := by
  induction items with
  | nil => rfl
  | cons p rest ih =>
    have hp : p.1 ≤ p.2 := hs.head
    have hlt : p.2 < s := hb p (by simp)
    have : s > p.1 := by omega
    simp only [walk, this, ↓reduceIte]
    rw [ih hs.tail (fun q hq => hb q (by simp [hq]))]
    rfl

/-! ### merging after an append = `snoc` -/

theorem wsub1_pos (x : Nat) (h : 0 < x) : wsub1 x = x - 1 := by
  unfold wsub1; split <;> omega

theorem snoc_length_pos (q : Nat × Nat) (r : List (Nat × Nat)) (s e : Nat) :
    1 ≤ (snoc (q :: r) s e).length := by
  cases r <;> simp only [snoc] <;> (try split) <;> simp

theorem mergeGo_append (s e : Nat) (p : Nat × Nat) (rest : List (Nat × Nat)) (cnt : Nat)
    (hs : Sorted (p :: rest)) (hb : EndsBelow (p :: rest) s) (hse : s ≤ e) :
    mergeGo p (rest ++ [(s, e)]) (cnt + 1) =
      (snoc (p :: rest) s e, cnt + 1 + (snoc (p :: rest) s e).length - (rest.length + 2)) := by
  induction rest generalizing p cnt with
  | nil =>
    have hlt : p.2 < s := hb p (by simp)
    have hs0 : 0 < s := by omega
    simp only [List.nil_append, mergeGo, wsub1_pos s hs0, snoc]
    by_cases h : p.2 + 1 = s
    · have h1 : p.2 ≥ s - 1 := by omega
      have h2 : p.2 < e := by omega
      simp [h1, h2, h]
    · have h1 : ¬ (p.2 ≥ s - 1) := by omega
      simp [h1, h]
  | cons q r ih =>
    have h12 : p.2 + 1 < q.1 := hs.2.1
    have hq0 : 0 < q.1 := by omega
    have h1 : ¬ (p.2 ≥ q.1 - 1) := by omega
    simp only [List.cons_append, mergeGo, wsub1_pos q.1 hq0, h1, ↓reduceIte, snoc]
    rw [ih q cnt hs.tail (fun x hx => hb x (by simp [hx]))]
    simp only [List.length_cons]
    have hl := snoc_length_pos q r s e
    congr 1
    omega

theorem merge_append (s e : Nat) (items : List (Nat × Nat)) (cnt : Nat)
    (hs : Sorted items) (hb : EndsBelow items s) (hse : s ≤ e) :
    merge (items ++ [(s, e)]) (cnt + 1) =
      (snoc items s e, cnt + 1 + (snoc items s e).length - (items.length + 1)) := by
  cases items with
  | nil => simp [merge, mergeGo, snoc]
  | cons p rest =>
    simp only [List.cons_append, merge, List.length_cons]
    rw [mergeGo_append s e p rest cnt hs hb hse]

theorem snoc_length (items : List (Nat × Nat)) (s e : Nat) :
    (snoc items s e).length = items.length + 1 ∨
    ((snoc items s e).length = items.length ∧ items ≠ []) := by
  induction items with
  | nil => simp [snoc]
  | cons p rest ih =>
    cases rest with
    | nil => simp only [snoc]; split <;> simp
    | cons q r =>
      simp only [snoc, List.length_cons]
      rcases ih with h | h
      · left; simp only [List.length_cons] at h; omega
      · right; simp only [List.length_cons] at h; exact ⟨by omega, by simp⟩

theorem snoc_sorted (items : List (Nat × Nat)) (s e : Nat) (hs : Sorted items)
    (hb : EndsBelow items s) (hse : s ≤ e) :
    Sorted (snoc items s e) ∧ EndsBelow (snoc items s e) (e + 1) := by
  induction items with
  | nil =>
    refine ⟨hse, ?_⟩
    intro p hp; simp [snoc] at hp; subst hp; simp
  | cons p rest ih =>
    cases rest with
    | nil =>
      have hp : p.1 ≤ p.2 := hs
      have hlt : p.2 < s := hb p (by simp)
      simp only [snoc]
      split
      · refine ⟨by show p.1 ≤ e; omega, ?_⟩
        intro x hx; simp at hx; subst hx; simp
      · refine ⟨⟨hp, by show p.2 + 1 < s; omega, hse⟩, ?_⟩
        intro x hx; simp at hx
        rcases hx with rfl | rfl
        · omega
        · simp
    | cons q r =>
      have ⟨h1, h2⟩ := ih hs.tail (fun x hx => hb x (by simp [hx]))
      simp only [snoc]
      have hne : snoc (q :: r) s e ≠ [] := by
        cases r <;> simp only [snoc] <;> (try split) <;> simp
      -- the first element of snoc (q :: r) keeps q's start
      have hfirst : ∃ y t, snoc (q :: r) s e = y :: t ∧ y.1 = q.1 := by
        cases r with
        | nil => simp only [snoc]; split <;> simp
        | cons q2 r2 => simp [snoc]
      obtain ⟨y, t, hy, hy1⟩ := hfirst
      rw [hy] at h1 h2 ⊢
      refine ⟨⟨hs.1, by rw [hy1]; exact hs.2.1, h1⟩, ?_⟩
      intro x hx
      simp only [List.mem_cons] at hx
      rcases hx with rfl | hx
      · have := hb x (by simp); omega
      · exact h2 x (by simp only [List.mem_cons]; exact hx)

theorem snoc_covers (items : List (Nat × Nat)) (s e x : Nat) (hs : Sorted items)
    (hb : EndsBelow items s) (hse : s ≤ e) :
    covers (snoc items s e) x ↔ covers items x ∨ (s ≤ x ∧ x ≤ e) := by
  induction items with
  | nil => simp [snoc, covers]
  | cons p rest ih =>
    cases rest with
    | nil =>
      have hp : p.1 ≤ p.2 := hs
      have hlt : p.2 < s := hb p (by simp)
      simp only [snoc]
      split
      · simp only [covers, List.mem_singleton, exists_eq_left]
        constructor
        · intro h; omega
        · intro h; omega
      · simp only [covers, List.mem_cons, List.not_mem_nil, or_false, exists_eq_or_imp,
          exists_eq_left]
    | cons q r =>
      have := ih hs.tail (fun x hx => hb x (by simp [hx]))
      simp only [snoc]
      unfold covers at this ⊢
      simp only [List.mem_cons, exists_eq_or_imp] at this ⊢
      rw [this]
      constructor
      · rintro (h | h | h)
        · left; left; exact h
        · left; right; exact h
        · right; exact h
      · rintro ((h | h) | h)
        · left; exact h
        · right; left; exact h
        · right; right; exact h

end Zck.C10
