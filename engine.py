#!/usr/bin/env python3
"""Shared machinery of every check:  regenerate -> prove (+audit) -> build implementation ->
correspondence + property evaluation -> verdict, replay, evidence.   See DESIGN.md section 5."""
import os, sys, json, subprocess, time, re, random, hashlib, shutil, glob
from concurrent.futures import ThreadPoolExecutor

VERIF = os.path.dirname(os.path.abspath(__file__))
sys.path.insert(0, VERIF)
import build as B
sys.path.insert(0, os.path.join(VERIF, 'gen'))

LEAN = os.path.join(VERIF, 'lean')
DRV = os.path.join(LEAN, '.lake', 'build', 'bin', 'drv')
ALLOWED_AXIOMS = {'propext', 'Classical.choice', 'Quot.sound'}
FORBIDDEN = re.compile(r'\bsorry\b|\badmit\b|^axiom\s|native_decide|bv_decide|implemented_by|\bunsafe\s|maxHeartbeats\s+0')
NCPU = 16

def now():
    return time.monotonic()

# --------------------------------------------------------------------------- Lean side

def strip_comments(txt):
    """remove Lean block and line comments (nested /- -/ handled)"""
    out = []; i = 0; depth = 0; n = len(txt)
    while i < n:
        if txt.startswith('/-', i):
            depth += 1; i += 2; continue
        if depth and txt.startswith('-/', i):
            depth -= 1; i += 2; continue
        if depth:
            if txt[i] == '\n': out.append('\n')
            i += 1; continue
        if txt.startswith('--', i):
            while i < n and txt[i] != '\n': i += 1
            continue
        out.append(txt[i]); i += 1
    return ''.join(out)

def grep_forbidden():
    hits = []
    for root, dirs, files in os.walk(LEAN):
        if '.lake' in root:
            continue
        for f in files:
            if f.endswith('.lean'):
                p = os.path.join(root, f)
                for ln, line in enumerate(strip_comments(open(p).read()).splitlines(), 1):
                    if FORBIDDEN.search(line):
                        hits.append('%s:%d: %s' % (os.path.relpath(p, VERIF), ln, line.strip()))
    return hits

def regenerate():
    import gen as G
    return G.gen_all()

def lake(args, timeout=3600):
    r = subprocess.run(['lake'] + args, cwd=LEAN, capture_output=True, text=True, timeout=timeout)
    return r.returncode, r.stdout + r.stderr

def build_driver():
    rc, out = lake(['build', 'drv'])
    return rc == 0, out

def theorems_of(module_path):
    """(fully qualified) theorem names declared in a Props file, machine-counted"""
    txt = strip_comments(open(module_path).read())
    ns = []
    names = []
    for line in txt.splitlines():
        m = re.match(r'\s*namespace\s+(\S+)', line)
        if m: ns.append(m.group(1)); continue
        m = re.match(r'\s*end\s+(\S+)', line)
        if m and ns and ns[-1] == m.group(1): ns.pop(); continue
        m = re.match(r'\s*(?:@\[[^\]]*\]\s*)?(?:private\s+|protected\s+)?theorem\s+([^\s:({\[]+)', line)
        if m:
            names.append('.'.join(ns + [m.group(1)]))
    return names

def prove(prop_modules, extra_theorem_files=()):
    """Build the property modules (and everything they import) and audit every theorem in them.
    Returns dict(ok, obligations, discharged, theorems=[{name, axioms}], broken=[...], log)."""
    res = dict(ok=True, obligations=0, discharged=0, theorems=[], broken=[], log='')
    t0 = now()
    mods = list(prop_modules)
    rc, out = lake(['build'] + mods)
    res['log'] = out[-6000:]
    files = [os.path.join(LEAN, m.replace('.', '/') + '.lean') for m in mods] + list(extra_theorem_files)
    names = []
    for f in files:
        names += theorems_of(f)
    res['obligations'] = len(names)
    if rc != 0:
        res['ok'] = False
        errs = re.findall(r'error: (\S+\.lean):(\d+):\d+: (.*)', out)
        broken = []
        for f, ln, msg in errs[:20]:
            broken.append('%s:%s %s' % (f, ln, msg[:200]))
        # name the theorem containing the first error line of each file
        for f, ln, msg in errs[:20]:
            p = os.path.join(LEAN, f)
            if os.path.exists(p):
                lines = open(p).read().splitlines()
                for k in range(int(ln) - 1, -1, -1):
                    m = re.match(r'\s*(?:theorem|def|example|lemma)\s+(\S+)', lines[k]) if k < len(lines) else None
                    if m:
                        broken.append('in %s: %s' % (f, m.group(1))); break
        res['broken'] = sorted(set(broken)) or ['lake build failed']
        res['wall_s'] = now() - t0
        return res
    # audit
    audit = os.path.join(LEAN, '.lake', 'audit_%d.lean' % os.getpid())
    with open(audit, 'w') as fh:
        for m in mods:
            fh.write('import %s\n' % m)
        for n in names:
            fh.write('#print axioms %s\n' % n)
    r = subprocess.run(['lake', 'env', 'lean', audit], cwd=LEAN, capture_output=True, text=True)
    os.unlink(audit)
    txt = r.stdout + r.stderr
    seen = {}
    for m in re.finditer(r"'([^']+)' depends on axioms: \[([^\]]*)\]", txt.replace('\n', ' ')):
        seen[m.group(1)] = [a.strip() for a in m.group(2).split(',') if a.strip()]
    for m in re.finditer(r"'([^']+)' does not depend on any axioms", txt):
        seen[m.group(1)] = []
    for n in names:
        if n not in seen:
            res['ok'] = False; res['broken'].append('audit: no axiom report for %s' % n)
            continue
        ax = seen[n]
        bad = [a for a in ax if a not in ALLOWED_AXIOMS]
        res['theorems'].append(dict(name=n, axioms=ax))
        if bad:
            res['ok'] = False; res['broken'].append('audit: %s depends on %s' % (n, bad))
        else:
            res['discharged'] += 1
    hits = grep_forbidden()
    if hits:
        res['ok'] = False; res['broken'] += ['forbidden construct: ' + h for h in hits[:10]]
    res['wall_s'] = now() - t0
    return res

def leanchecker(mods):
    out = []
    ok = True
    for m in mods:
        r = subprocess.run(['lake', 'env', 'leanchecker', m], cwd=LEAN, capture_output=True, text=True)
        out.append('%s: rc=%d %s' % (m, r.returncode, (r.stdout + r.stderr).strip()[-200:]))
        ok = ok and r.returncode == 0
    return ok, out

# --------------------------------------------------------------------------- running ops

def run_sharded(exe, lines, workdir, tag, extra_args=(), env=None, shards=NCPU, timeout=3600):
    """Run a line-protocol program over `lines` split in contiguous shards; returns dict id->rest."""
    os.makedirs(workdir, exist_ok=True)
    n = len(lines)
    shards = max(1, min(shards, (n + 49) // 50))
    jobs = []
    for s in range(shards):
        chunk = lines[s::shards]          # round-robin: expensive neighbours end up in different shards
        if not chunk: continue
        fin = os.path.join(workdir, '%s.%d.in' % (tag, s))
        fout = os.path.join(workdir, '%s.%d.out' % (tag, s))
        with open(fin, 'w') as fh:
            fh.write('\n'.join(chunk) + '\n')
        jobs.append((fin, fout))
    def one(j):
        fin, fout = j
        r = subprocess.run([exe, fin, fout] + list(extra_args), capture_output=True, text=True, env=env, timeout=timeout)
        return r
    with ThreadPoolExecutor(len(jobs) or 1) as ex:
        rs = list(ex.map(one, jobs))
    res = {}
    for (fin, fout), r in zip(jobs, rs):
        if os.path.exists(fout):
            for line in open(fout, errors='replace'):
                line = line.rstrip('\n')
                if not line: continue
                k, _, rest = line.partition(' ')
                res[k] = rest
        if r.returncode != 0:
            res.setdefault('__errors__', []).append('%s rc=%d %s' % (os.path.basename(fin), r.returncode, r.stderr[-500:]))
    return res

class Case:
    __slots__ = ('id', 'op', 'meta')
    def __init__(self, id, op, meta=None):
        self.id = id; self.op = op; self.meta = meta or {}

def differential(cases, zdrv, workdir, files_env=None, timeout_s=20, sig_of=None, project=None):
    """cases: list of Case (op = 'OP args...').  Returns per-case records:
       {id, op, impl, model, prop(True/False/None), agree}"""
    # cases whose implementation result was obtained outside the harness (real CLI tools) carry it in meta['impl']
    lines = ['%s %s' % (c.id, c.op) for c in cases if c.meta.get('impl') is None]
    t_a = now()
    impl = run_sharded(zdrv, lines, workdir, 'impl', extra_args=[str(timeout_s)], env=files_env) if lines else {}
    # a HANG is a verdict only if it is reproducible: ops that ran out of time while the machine was busy are run again, alone, one
    # after the other, with four times the limit (at least 60 s); only a second HANG is reported
    hung = [l for l in lines if impl.get(l.split(' ', 1)[0], '').startswith('HANG')]
    if hung:
        again = run_sharded(zdrv, hung, workdir, 'impl-retry', extra_args=[str(max(60, 4 * timeout_s))], env=files_env, shards=1)
        for k, v in again.items():
            if k != '__errors__': impl[k] = v
        TIMING['hang_retries'] = TIMING.get('hang_retries', 0) + len(hung)
    for c in cases:
        if c.meta.get('impl') is not None: impl[c.id] = c.meta['impl']
    t_b = now()
    jl = []
    for c in cases:
        r = impl.get(c.id, 'MISSING')
        jl.append('%s %s ||| %s' % (c.id, c.op, r))
    model = run_sharded(DRV, jl, workdir, 'model')
    TIMING['impl_s'] = TIMING.get('impl_s', 0) + (t_b - t_a)
    TIMING['model_s'] = TIMING.get('model_s', 0) + (now() - t_b)
    recs = []
    for c in cases:
        i = impl.get(c.id, 'MISSING')
        m = model.get(c.id, 'MISSING ||| P=-')
        mres, _, p = m.partition(' ||| ')
        ptok = p.split()
        pv = None
        if ptok and ptok[0] == 'P=1': pv = True
        elif ptok and ptok[0] == 'P=0': pv = False
        sig = ' '.join(ptok[1:]) if len(ptok) > 1 else ''
        ip = project(i, c) if project else i
        recs.append(dict(id=c.id, op=c.op, impl=i, model=mres, prop=pv, agree=(ip == mres), sig=sig, meta=c.meta))
    errs = impl.get('__errors__', []) + model.get('__errors__', [])
    return recs, errs

# --------------------------------------------------------------------------- verdict / evidence

def load_known(prop):
    p = os.path.join(VERIF, 'known_findings.json')
    if not os.path.exists(p): return []
    return [k for k in json.load(open(p)) if k.get('property') == prop and k.get('status') == 'open']

TIMING = {}
CURRENT_WORK = None     # scratch directory of the running check; replaced by @WORK@ in replay files
REPLAY_FILES = None     # callable(record) -> {name: bytes} of the work files a case needs (optional)

def write_replay(prop, seed, n, payload):
    d = os.path.join(VERIF, 'replays', prop)
    os.makedirs(d, exist_ok=True)
    p = os.path.join(d, '%s-%s.json' % (seed, n))
    # embed the work files the ops mention (small ones), so that the replay is self-contained
    if CURRENT_WORK:
        files = dict(payload.get('files') or {})
        for op in payload.get('ops', []):
            for tok in op.split():
                for part in tok.split(','):
                    if part.startswith(CURRENT_WORK) and os.path.isfile(part) and os.path.getsize(part) <= (4 << 20):
                        files[os.path.relpath(part, CURRENT_WORK)] = open(part, 'rb').read().hex()
        if files: payload['files'] = files
    if CURRENT_WORK:
        payload = json.loads(json.dumps(payload, default=str).replace(CURRENT_WORK, '@WORK@'))
    json.dump(payload, open(p, 'w'), indent=1, default=str)
    return p

def write_evidence(prop, tier, seed, coverage, assumptions, wall_s, violations):
    d = os.path.join(VERIF, 'evidence')
    os.makedirs(d, exist_ok=True)
    ev = dict(property_id=prop, tier=tier, seed=seed, level='proof', coverage=coverage,
              assumptions=assumptions, wall_s=round(wall_s, 2), violations=violations)
    json.dump(ev, open(os.path.join(d, prop + '.json'), 'w'), indent=1, default=str)
    return ev

TRUSTED_BASE_COMMON = [
    "Lean 4.33.0 kernel (thorough tier: leanchecker re-check of the property modules)",
    "gen/gen.py translator (constants/tables extracted by compiling gen/consts.c against /repo's headers and sources)",
    "correspondence check: harness/zdrv.c (real /repo sources, rebuilt from the working tree), line protocol, generators in props/*.py",
    "platform: x86-64 Linux, sizeof(size_t)=8, sizeof(int)=4 (proved about the generated constants)",
]

def finish(prop, tier, seed, t0, proof, recs, errs, known_sigs, rule, samples, distribution,
           assumptions, extra_cov=None, classify=None, nontrivial=None, thorough_checker=None):
    """Common verdict logic.  Returns process exit code."""
    violations = []   # (kind, replay path, text)
    known_seen = {}
    prop_fail = [r for r in recs if r['prop'] is False]
    disagree = [r for r in recs if not r['agree']]
    n = 0
    unknown_fail = []
    for r in prop_fail:
        sig = (classify(r) if classify else r.get('sig')) or 'other/' + hashlib.sha1(r['op'].encode()).hexdigest()[:10]
        r['signature'] = sig
        k = [k for k in known_sigs if k.get('signature') == sig]
        if k:
            known_seen.setdefault(sig, (k[0], r))
        else:
            unknown_fail.append(r)
    if unknown_fail:
        r = min(unknown_fail, key=lambda r: len(r['op']))
        n += 1
        path = write_replay(prop, seed, n, dict(property=prop, tier=tier, seed=seed, kind='property-fails-on-implementation',
                      ops=['%s %s' % (r['id'], r['op'])], impl=[r['impl']], model=[r['model']], prop_ok=False,
                      signature=r.get('signature'), meta=r.get('meta'), others=len(unknown_fail) - 1))
        violations.append(('input', path, ''))
    broken = []
    if not proof['ok']:
        broken += ['proof: ' + b for b in proof['broken']]
    if disagree:
        broken.append('correspondence: %d of %d cases differ, first: %s impl=[%s] model=[%s]' % (
            len(disagree), len(recs), disagree[0]['op'][:300], disagree[0]['impl'][:200], disagree[0]['model'][:200]))
    if errs:
        broken.append('harness/driver errors: ' + '; '.join(errs)[:500])
    if broken and not unknown_fail:
        n += 1
        d0 = min(disagree, key=lambda r: len(r['op'])) if disagree else None
        path = write_replay(prop, seed, n, dict(property=prop, tier=tier, seed=seed, kind='no-failing-input-found',
                      broken=broken, ops=(['%s %s' % (d0['id'], d0['op'])] if d0 else []),
                      impl=([d0['impl']] if d0 else []), model=([d0['model']] if d0 else []),
                      searched=dict(cases=len(recs), prop_evaluated=sum(1 for r in recs if r['prop'] is not None))))
        violations.append(('none', path, ' no-failing-input-found'))
    for sig, (k, r) in known_seen.items():
        print('KNOWN-FINDING: property=%s %s %s' % (prop, sig, k.get('what', '')))
    for kind, path, tail in violations:
        print('VIOLATION property=%s replay=%s%s' % (prop, path, tail))
    evaluated = len(recs)
    distinct = len(set(r['op'] for r in recs if (nontrivial(r) if nontrivial else True)))
    cov = dict(
        obligations=max(proof['obligations'], 1), discharged=proof['discharged'],
        checker_cmd='cd lean && lake build <property modules> && lake env lean <generated #print axioms audit>' +
                    (' && lake env leanchecker <module>' if tier == 'thorough' else ''),
        trusted_base=TRUSTED_BASE_COMMON + ['axioms used: ' + ', '.join(sorted({a for t in proof['theorems'] for a in t['axioms']}) or ['none'])],
        theorems=proof['theorems'], proof_ok=proof['ok'], proof_broken=proof['broken'],
        evaluations=evaluated, distinct_nontrivial=distinct, rule=rule, samples=samples,
        traces_validated_against_impl=sum(1 for r in recs if r['agree']),
        disagreements_checked=len(disagree),
        property_evaluated_on_impl=sum(1 for r in recs if r['prop'] is not None),
        property_failures=len(prop_fail), known_findings_seen=sorted(known_seen),
        distribution=distribution, proof_wall_s=round(proof.get('wall_s', 0), 1),
        impl_wall_s=round(TIMING.get('impl_s', 0), 1), model_wall_s=round(TIMING.get('model_s', 0), 1))
    if extra_cov: cov.update(extra_cov)
    write_evidence(prop, tier, seed, cov, assumptions, now() - t0, len(violations))
    print('%s %s: proof %d/%d obligations, %d cases (%d agree with model, %d property failures, %d known), %.1fs' % (
        prop, tier, proof['discharged'], proof['obligations'], evaluated, cov['traces_validated_against_impl'],
        len(prop_fail), len(known_seen), now() - t0))
    return 1 if violations else 0


# --------------------------------------------------------------------------- generic check run

def standard_run(prop, modules, gen_cases, tier, seed, replay, assumptions, rule, variant='plain',
                 nontrivial=None, classify=None, timeout_s=20, extra_cov=None, post=None, env=None, replay_setup=None, project=None):
    """regenerate -> prove/audit -> build driver + harness from the working tree -> run cases ->
    verdict.  gen_cases(tier, seed, ctx) returns a list of Case; ctx is a dict with 'work' (a scratch
    directory that is removed afterwards) and 'zdrv'."""
    t0 = now()
    regenerate()
    proof = prove(modules)
    if tier == 'thorough' and proof['ok']:
        ok, out = leanchecker(modules)
        proof['leanchecker'] = out
        if not ok:
            proof['ok'] = False; proof['broken'].append('leanchecker: ' + '; '.join(out))
    drv_ok, drv_log = build_driver()
    zsrc = os.path.join(VERIF, 'harness', 'zdrv.c')
    zflags = ['-I' + os.path.join(VERIF, 'harness')]
    try:
        zdrv = B.build_exe(zsrc, 'zdrv', variant=variant, extra_flags=zflags)
    except B.BuildFailed as e:
        # the harness includes internal headers: a change to a structure it looks into can stop it building.  The correspondence can
        # then not be carried out; what the proof side found (e.g. a broken footprint obligation) is still reported
        if not replay:
            shutil.rmtree(os.path.join(VERIF, 'replays', prop), ignore_errors=True)
        return finish(prop, tier, seed, t0, proof, [], ['harness does not build against this tree: ' + str(e)], load_known(prop), rule, [], {},
                      assumptions, nontrivial=nontrivial, classify=classify, extra_cov=extra_cov)
    work = os.path.join(VERIF, '.cache', 'work-%s-%d' % (prop, os.getpid()))
    shutil.rmtree(work, ignore_errors=True)
    os.makedirs(work)
    ctx = dict(work=work, zdrv=zdrv, tier=tier, seed=seed, proof=proof)
    if not replay:      # replays of earlier runs would be mistaken for this run's
        shutil.rmtree(os.path.join(VERIF, 'replays', prop), ignore_errors=True)
    global CURRENT_WORK
    CURRENT_WORK = work
    recs = []
    try:
        if replay:
            rp = json.load(open(replay))
            cases = []
            if replay_setup:
                replay_setup(ctx, rp)
            for name, hx in (rp.get('files') or {}).items():
                os.makedirs(os.path.dirname(os.path.join(work, name)), exist_ok=True)
                open(os.path.join(work, name), 'wb').write(bytes.fromhex(hx))
            for line in rp.get('ops', []):
                i, _, op = line.partition(' ')
                cases.append(Case(i, op.replace('@WORK@', work), (rp.get('metas') or {}).get(i) or rp.get('meta') or {}))
        else:
            cases = gen_cases(tier, seed, ctx)
        errs = []
        if not drv_ok:
            errs.append('driver build failed: ' + drv_log[-300:])
        e = dict(os.environ)
        e['ASAN_OPTIONS'] = 'allocator_may_return_null=1:detect_leaks=0:exitcode=99:abort_on_error=0'
        e['UBSAN_OPTIONS'] = 'print_stacktrace=1:halt_on_error=1:exitcode=98'
        if env: e.update(env)
        groups = {}
        for c in cases:
            groups.setdefault(c.meta.get('variant', variant), []).append(c)
        for v, cs in groups.items():
            exe = zdrv if v == variant else B.build_exe(zsrc, 'zdrv', variant=v, extra_flags=zflags)
            r1, e2 = differential(cs, exe, os.path.join(work, 'run-' + v), files_env=e, timeout_s=timeout_s, project=project)
            recs += r1; errs += e2
        if post:
            post(recs, ctx)
        dist = {}
        for r in recs:
            k = str(r['meta'].get('kind', '?')) + ':' + r['impl'].split(' ')[0]
            dist[k] = dist.get(k, 0) + 1
        samples = [dict(op=r['op'][:400].replace(work, '@WORK@'), impl=r['impl'][:300], model=r['model'][:300])
                   for r in recs[:: max(1, len(recs) // 12)]][:12]
        return finish(prop, tier, seed, t0, proof, recs, errs, load_known(prop), rule, samples, dist,
                      assumptions, nontrivial=nontrivial, classify=classify, extra_cov=extra_cov)
    finally:
        shutil.rmtree(work, ignore_errors=True)
