#!/usr/bin/env python3
"""Writes MANIFEST.json from the table below (kept in one place so it is always valid)."""
import json, os
VERIF = os.path.dirname(os.path.abspath(__file__))
ALL = ['C%02d' % i for i in range(1, 21)]

CLAIMED = {
 'C20': dict(
   text="Machine-checked proof (Lean 4) that the model of compint.c decodes exactly the mathematical value or fails "
        "(unterminated / >10 bytes / does not fit), never reads out of bounds, and round-trips every 64-bit value; the model "
        "is tied to the code by generated constants and by a differential correspondence run (real compint.c against a guard page).",
   design_ref="DESIGN.md section 7 C20",
   note="Trusted: Lean kernel; axioms propext, Classical.choice, Quot.sound only; gen/gen.py; harness/zdrv.c + generators "
        "(agreement on explored inputs, not all inputs); calling convention of compint_to_size (cursor = buf+*length, max_length = buffer size).",
   technique="Lean 4 proof (induction over the decode loop, refinement to exact base-128 value) + differential correspondence"),
 'C10': dict(
   text="Machine-checked proof (Lean 4) that the model of range.c (range_add walk, range_merge_combined, the limit loop of "
        "zck_get_missing_range, the snprintf/growth loop of zck_get_range_char) refines the specification 'coalesced extents of a "
        "prefix of the missing chunks' for every index, validity vector and limit, and that the specification is ascending, "
        "non-adjacent, covers exactly those extents, respects max(limit,1) and renders as the comma-separated list; tied to the "
        "code by a differential correspondence run of the real range.c, with the decidable predicate evaluated on its output.",
   design_ref="DESIGN.md section 7 C10",
   note="Trusted: Lean kernel; axioms propext, Classical.choice, Quot.sound only; gen/gen.py (BUF_SIZE); harness/ops_range.h builds the "
        "index through index_new_chunk and sets valid flags directly; agreement on explored inputs only.",
   technique="Lean 4 proof (refinement of the list model to a coalescing specification, induction over the chunk list) + differential correspondence"),
 'C18': dict(
   text="Machine-checked proof (Lean 4) that the streaming structure of the bundled SHA-256 / SHA-512 / SHA-512-128 code (update "
        "buffer arithmetic, final padding, counter widths generated from the C source) AND of the bundled SHA-1 code (SHA1_Update, "
        "SHA1_Final with its padding fed through update byte by byte and its 61-bit byte counter: bundled_sha1, from stream1_eq_spec) "
        "computes the FIPS 180-4 digest for every "
        "message below 2^61 bytes and every segmentation into update calls, generically in the compression function; generated "
        "K tables / initial values proved equal to the FIPS constants; three-way correspondence (bundled build, OpenSSL build, Lean).",
   design_ref="DESIGN.md section 7 C18",
   note="The compression functions are compared on explored messages (they are the Lean spec's own executable definitions); OpenSSL is a "
        "trusted external; messages >= 2^29 bytes are compared between the C builds and hashlib only.",
   technique="Lean 4 proof (invariant over update calls, refinement of streaming hash to Merkle-Damgard spec; decide on generated tables) + three-way differential correspondence"),
 'C06': dict(
   text="Machine-checked proof (Lean 4) about the model of read_lead + read_header_from_file: open succeeds only if the stored checksum "
        "equals H(fixed magic ++ lead before the checksum ++ whole remaining header); these regions plus the stored checksum partition "
        "every header byte; two files passing the gate with the same geometry and the same stored checksum (or the same hashed bytes) have "
        "identical headers after the identifier or exhibit an explicit hash collision. Tied to the code by exhaustive single-byte mutation "
        "of valid headers (every position x 255 values) run on the real library and on the model.",
   design_ref="DESIGN.md section 7 C06",
   note="Trusted: Lean kernel (axioms propext, Classical.choice, Quot.sound); hand-written model of header.c checked by correspondence on "
        "explored files only; hash function is a parameter of the theorems (collisions stated, not assumed away).",
   technique="Lean 4 proof (unfolding of the monadic parser model, list-slice algebra, collision-or-equal argument) + exhaustive differential mutation"),
 'C07': dict(
   text="Machine-checked proof (Lean 4): hex_to_int accepts exactly 0-9a-fA-F with the right value (all byte values), "
        "ascii_checksum_to_bin succeeds exactly on hex strings and returns their value, the digest setter's acceptance condition, and "
        "read_lead accepts under pins iff it accepts without pins and each pinned value equals the stored one; with the C06 gate a pinned "
        "open authenticates the header bytes. Tied to the code by OPEN ops with all 256 byte values at every digest position.",
   design_ref="DESIGN.md section 7 C07",
   note="Trusted: as C06; the setter ordering rules and zck_validate_lead are modelled and corresponded, the validate-then-open equivalence is not a theorem.",
   technique="Lean 4 proof (case analysis over byte ranges, induction over digit pairs, iff over the monadic lead parser) + differential correspondence"),
 'C13': dict(
   text="Machine-checked proof (Lean 4) about the model of read_lead/read_header_from_file/read_preface/index_read/read_sig: whatever the "
        "model of zck_init_read accepts, the INDEPENDENT reference parser (Format.parse, written from zchunk_format.txt) accepts too, with "
        "exactly the same report — flags, checksum types, lead / header / data lengths, header and data checksums, chunk count and every "
        "chunk's number, checksums, stored size, uncompressed size and start offset (openFile_parse, Props/C13Parse.lean; hence whatever "
        "the reference parser rejects is rejected). In addition: the reported count equals the number of chunks and is >= 1, numbers and "
        "start offsets are exact running sums, header+data length and every size fit ssize_t, int-sized fields that do not fit are rejected, "
        "and no read leaves the header buffer. The implementation is tied to the model by OPEN/report runs on generated and re-sealed "
        "mutant headers, judged against the reference parser.",
   design_ref="DESIGN.md section 7a (C13) and section 7 C13",
   note="openFile_parse holds for files shorter than 2^63 bytes (explicit hypothesis). The converse (the C reader accepts everything the "
        "reference parser accepts) is not claimed by the property and not proved. Model tied to code by correspondence only.",
   technique="Lean 4 proof (refinement of the position-based parser model to the list-based reference parser: compressed integers depend only on the bytes up to the terminator; induction over the optional-element and index-entry loops) + differential correspondence against that reference parser"),
 'C15': dict(
   text="Machine-checked proof (Lean 4), for an arbitrary codec and hash function: in the model of comp_read / comp_end_dchunk / import_dict, "
        "for every file whose chunks are decoded as a unit, every reader state satisfying the invariant and EVERY sequence of read buffer "
        "sizes, everything the calls write to the caller's buffers is a prefix of decoded content of chunks whose stored bytes match "
        "their index checksum and have the declared size; a chunk end that does not verify returns -1, empties the buffer and makes "
        "the error sticky. Tied to the code by READSEQ on every single-bit body flip x three buffer sizes, evaluated against the "
        "independent reference decoder.",
   design_ref="DESIGN.md section 7 C15",
   note="Trusted: Lean kernel (axioms propext, Classical.choice, Quot.sound); the hand-written step-machine model of comp_read is tied to "
        "the C by correspondence on explored inputs only; libzstd's behaviour enters as a table computed by calling libzstd directly.",
   technique="Lean 4 proof (invariant over the loop's step function, lifted by induction over fuel and over the call sequence) + differential correspondence"),
 'C02': dict(
   text="Proof (Lean 4) on the model of comp_read / import_dict / zck_close, for an ARBITRARY file, codec and hash function: if open, any "
        "sequence of reads (any buffer sizes) that all report success, a last read that comes up short, and close all succeed, then every "
        "index entry is all there at its own extent of the file, hashes to its index checksum and decodes with the dictionary the format "
        "prescribes to exactly its declared length, the data section hashes to the data checksum, and the bytes handed out are exactly the "
        "contents of the data chunks in index order (stream_sound: one loop invariant kept by every iteration, call, dictionary import and "
        "call sequence); restated against the INDEPENDENT reference decoder: Format.decodeAny's content function yields exactly those bytes "
        "(stream_decodes, decodeAny_eq). Plus the C15 theorem (nothing unverified is released by unit-decoded reads) and close_iff. The "
        "implementation is tied to the model by READSEQ runs on valid files and raw / re-sealed / truncated / swapped / re-checksummed "
        "mutants, zstd frames without recorded content size and multi-frame chunks, judged by the reference decoder.",
   design_ref="DESIGN.md section 7a (reader round trip) and section 7 C02",
   note="Hypotheses of stream_decodes, all explicit: start offsets are running sums (proved for every header the parser model accepts, C13 "
        "open_sound); the two points where the reference decoder is stricter than the reader (checksum field of an EMPTY dictionary entry all "
        "zeros; declared length 0 implies no stored bytes) and digest sizes as the format gives them. With C13's openFile_parse the whole "
        "path is one statement from the bytes of the file: open_read_decodes (Props/C02Full.lean): model open + reads + close succeed => "
        "Format.decodeAny f = the bytes handed out; open_read_decodes_sha (Props/C02Hash.lean) instantiates it with the SHA models of C18, whose digest sizes are "
        "proved (zckHash_len), so no hypothesis about hashing remains. unzck's glue is corresponded, not proved.",
   technique="Lean 4 proof (loop invariant of the reader as a step machine, induction over iterations / calls / call sequences, refinement to the independent reference decoder) + differential correspondence against that decoder"),
 'C14': dict(
   text="Proof (Lean 4) on the model of zck_get_chunk_data / zck_get_chunk_comp_data: (1) history independence — once the dictionary is "
        "loaded (or absent) a request's result and resulting context are identical whatever the previous offset, pending stored bytes, "
        "position in the previous chunk, current chunk, end-of-data marker, decoded buffer and chunk checksum context were; (2) content — on a "
        "well-formed file (every index entry present, verified, of declared length) a data request for chunk k >= 1 with a buffer of at most the "
        "declared size returns that many bytes: exactly the beginning of the chunk's content (its stored bytes decoded with the dictionary the format "
        "prescribes), from ANY context with the dictionary loaded and whatever the running data checksum was fed before "
        "(chunk_data_prefix, chunk_data_exact, Props/C14Exact.lean: the reader's loop invariant started inside chunk k); stored-data requests return exactly "
        "the bytes at the chunk's extent. The implementation is tied to the model by ALL request sequences of length <= 3 (exhaustive) and "
        "random long ones, judged against the reference decoder.",
   design_ref="DESIGN.md section 7a (C14) and section 7 C14",
   note="chunk_data_exact is stated for the data chunks (k >= 1): a request for the dictionary chunk itself is decoded WITH the loaded "
        "dictionary by the code (harmless for zstd, not expressible for an arbitrary codec); that case and requests with other buffer sizes "
        "are covered by the correspondence runs only.",
   technique="Lean 4 proof (definitional re-establishment of reader state; reader loop invariant with untracked running checksum, prefix argument on the accounting equation) + exhaustive short request sequences as differential correspondence"),
 'C09': dict(
   text="Partial proof (Lean 4) on the model of validate_checksums / zck_validate_data_checksum.  PROVED for EVERY on-disk state of a "
        "file with data (any chunks absent, zeroed or garbage, truncated anywhere, over-long; scanLoop_exact, find_valid_exact, by "
        "induction over the index with the read position exact or at the end of a truncated file): a chunk with stored bytes is marked "
        "valid only if its extent lies in the file and hashes to the index checksum, is marked failed if not, and gets one of the two "
        "marks (all failed when the override for a wrong whole-data checksum applies); both validators leave the descriptor at the data "
        "start with a fresh running checksum and touch nothing else of the reader state; the data verdict is 1 only for a complete body "
        "hashing to the header's data checksum.  THE OVERALL VERDICT IS PROVED (scan_verdict, from scanLoop_allGood and scanLoop_full): for a "
        "file with data the scan reports success exactly when every chunk was marked valid by the chunk loop AND the bytes of the whole "
        "data section hash to the data checksum (when every chunk was marked valid every read was complete, so the running checksum was "
        "fed exactly the data section); if only the data checksum fails the verdict is failure and ALL chunks are marked failed; if a "
        "chunk fails the marks are those of the chunk loop.  Detached header (scan_detached, verdict_detached): only the first entry is "
        "scanned, every other mark is left alone.  READS AFTER VALIDATIONS (Props/C09Reads.lean): any sequence of validations on a context that has not been read "
        "from changes only the marks, the chunk checksum context, the offset and the running data checksum (validateChecksums_ctx), so the "
        "reader's invariant holds again (validations_fresh, fresh_P) and reads started there satisfy the same theorems as reads from a fresh "
        "open: reads_after_validations_sound (never other content than the decoded file) and reads_after_validations_complete (on a "
        "well-formed file every read schedule succeeds with the exact content and close succeeds).  VALIDATIONS AFTER READS "
        "(Props/C09After.lean): reads keep the header and the number of marks (reads_keep), the chunk loop overwrites every mark of a "
        "file with data (scanLoop_marks_indep), so verdict and marks of a validation are a function of header and file "
        "(validateChecksums_indep, validateData_indep) and a validation after ANY reads that left the context without error reports what "
        "it reports on a fresh open, mark for mark (validate_after_reads).  NOT proved: reading ON after a validation that followed a "
        "partial read, file immutability; these are evaluated against the reference decoder on all 3^n damage subsets, all truncation lengths, "
        "validations before AND after reads.",
   design_ref="DESIGN.md section 7a",
   note="Partial: per-chunk classification, overall verdict, override and the detached rule are proved for all on-disk states; reads started after validations are proved to behave as from a fresh open; validate-after-read histories are checked. "
        "Hypothesis of the classification theorem: an empty dictionary entry has no stored bytes (the scan marks it valid unconditionally).",
   technique="Lean 4 proof (induction over the chunk index with an exact-or-EOF read position invariant; the loop's flag as a conjunction over the marks; the running checksum as the data section) + differential correspondence "
             "over damage subsets, truncations and validate/read sequences"),
 'C16': dict(
   text="Machine-checked proof (Lean 4) about the chunker model (automatic branch of zck_write with the buzhash state generated from the "
        "source, zck_end_chunk, comp_init limits): every segmentation of the same content yields the same chunks; chunks finished within a "
        "shared prefix are finished chunks of both outputs and account for the prefix; writers with equal chunk-in-progress and hash state "
        "produce identical further chunks (resynchronisation); every automatically finished chunk has auto_min <= size <= auto_max; the "
        "effective limits satisfy min <= auto_min <= auto_max <= max. Tied to the code by WRITE ops: byte-identical files across "
        "segmentations and repeated runs (none and zstd), chunk sizes equal to the model's, and prefix/suffix locality of the real "
        "per-chunk (digest, stored size, size) lists under edits.",
   design_ref="DESIGN.md section 7 C16",
   note="The model is per byte; that the C code's batching is equivalent is validated by correspondence. zstd byte-identity rests on libzstd "
        "determinism (checked on real outputs, not proved). Termination of the re-examination loop IS proved (Props/C16Term.lean, sixth "
        "session): a refused boundary makes the C loop feed the SAME byte to the rolling hash again; after at most 48 such feeds the window holds "
        "only that byte, and two boundary requests in a row would then need rol(T[b],48) xor T[b] to have bits 1..14 clear, which no entry of "
        "the table (generated from buzhash.c, checked by the kernel: kb_ok) has; hence feedAuto_terminates (at most W+3 examinations per byte, "
        "within the model's fuel W+4), run_terminates, closeChunks_total for every legal configuration with the library's constants W=48, bits=15.",
   technique="Lean 4 proof (accumulator/append lemmas over the per-byte chunker, induction over content) + differential correspondence and cross-run comparison"),
 'C01': dict(
   text="Proof (Lean 4) on the models, in three parts that compose: (1) WRITE — for every legal configuration and every sequence of "
        "write/end-chunk calls (manual or automatic) the data chunks of the closed file concatenate to exactly the bytes written (nothing "
        "lost - incl. a final chunk below the minimum -, duplicated or reordered): W_structure. (2) HEADER — the model of zck_init_read opens "
        "what the model of header_create serialises, followed by any data section, and reports exactly the serialised fields with the entries "
        "numbered by position and start offsets the running sums (openFile_header, Props/C01Encode.lean); a file laid out as zck_close lays "
        "it out whose index entries describe their chunks (sizes, checksum of the stored bytes, codec round trip) is well-formed for the "
        "reader (written_WF). (3) READ — on a well-formed file EVERY sequence of read buffer sizes succeeds, the loop's fuel suffices "
        "(explicit measure), a short read has delivered exactly the contents of the data chunks in order and zck_close succeeds "
        "(read_back); together write_read_roundtrip (Props/C01Written.lean); for uncompressed files the whole output of zck_close is "
        "modelled byte for byte (Encode.closeFileNone) and write_close_read_none discharges every hypothesis from that definition: write "
        "calls -> chunker -> file bytes -> any read schedule = the bytes written; Props/C01Close.lean does the same for ANY backend "
        "(Encode.closeFile: compressor as a parameter C, uncompressed-source flag, compression type; closeFile_reads_back / "
        "write_close_read under the single assumption that the decompressor inverts C on non-empty contents). Tied to the code: the "
        "file the implementation wrote is compared byte for byte with closeFile on EVERY WRITE case (for zstd files C is the table "
        "content -> stored bytes read off that very output); every WRITE case re-opens, validates and "
        "reads back the produced file, the header bytes the implementation wrote are compared with Encode.header applied to the fields the "
        "reference parser reads out of them (re-serialisation identity) and the file length with header + data; the zck/unzck tools run on "
        "inputs with the split string at every alignment around 32 KiB block edges, chunk structure compared with the model of the scanner.",
   design_ref="DESIGN.md section 7a (reader round trip, header round trip) and section 7 C01",
   note="Partial: the per-chunk work of the writer is modelled at the level of whole chunks (Encode.closeFile: entry, checksums, stored form "
        "from the compressor parameter), not as the incremental buffer machine of comp_write / end_cchunk. Proved in the sixth session: termination of the automatic chunker "
        "(Props/C16Term.lean closeChunks_total / written_back_total, so 'if the calls complete' is discharged) and the zck tool's split-string "
        "scanner (Props/C01Scanner.lean scanner_preserves: for every split string, input and cutting into read blocks the bytes handed to "
        "zck_write are the input; zck_tool_chunks: the chunks zck closes are the input) and the tools end to end (Props/C01Tool.lean "
        "unzckLoop_total: unzck's read loop ends within content-length+1 reads with exactly the content; zck_unzck_roundtrip: zck then unzck "
        "returns the input for every input, split string, block cutting, legal configuration, buffer size and backend whose decompressor "
        "inverts its compressor); the tools' option plumbing, file names and the write(2) of unzck's output "
        "are not theorems; codec round trip (decomp (comp x) = x) assumed.",
   technique="Lean 4 proof (accounting invariant over write calls; serialiser/parser round trip by positional decoding; reader loop invariant + termination measure over all read schedules) + differential correspondence incl. re-serialisation identity and real CLI tools"),
 'C03': dict(
   text="PARTIAL proof (Lean 4): the model of the header/index parser (read_lead, read_header_from_file, read_preface incl. the "
        "optional-element loop, read_index/index_read, read_sig) performs no read outside the header buffer for EVERY byte string and pin "
        "setting, every model function is total, and the optional-element cursor can neither move backwards nor leave the header. Everything "
        "else of the property (use-after-free, double free, UB in unmodelled code, the tools) is only SEARCHED: the real sources and the CLI "
        "tools are built with ASan+UBSan and run, with timeouts, on valid files and re-sealed field mutants; any crash, report or hang is a "
        "violation, and all library results must equal the Lean models'.",
   design_ref="DESIGN.md section 7 C03",
   note="Partial by nature of the technique: memory safety of C is not expressible in the model beyond explicit bounds-checked reads; "
        "allocation failures are modelled with a platform threshold (2^40).",
   technique="Lean 4 proof (NoOob predicate over the monadic parser model, bind lemma, induction over the entry/optional-element loops) + sanitizer runs as search and correspondence"),
 'C08': dict(
   text="Machine-checked proof (Lean 4) about the model of zck_copy_chunks / write_and_verify_chunk / zero_chunk / zck_find_matching_chunks, for "
        "an arbitrary hash function: the copy changes no target byte outside the extents of chunks that were not marked valid before "
        "(header and valid chunks untouched); a step marks a chunk valid only when the bytes it has just written at the chunk's extent "
        "hash to the source index checksum it was looked up by and have the full stored size; a source chunk is looked up by checksum and "
        "used only under the two size tests; matching pairs only chunks with equal (uncompressed) checksum and equal length. Tied to the "
        "code by COPY/MATCH ops with intact, corrupted, truncated, mis-indexed and size-mismatched sources, judged on the files before/after.",
   design_ref="DESIGN.md section 7 C08",
   note="Whole-loop 'valid implies bytes hash to the TARGET index checksum' combines the step theorem with disjoint extents and equal "
        "checksum types; that combination is evaluated by the predicate on real files, not proved. Source immutability is checked on files.",
   technique="Lean 4 proof (list-slice algebra for writes at offsets, induction over the target chunk list) + differential correspondence"),
 'C12': dict(
   text="PARTIAL proof (Lean 4), for EVERY fault schedule (short counts, EINTR, hard errors at any system call): in the model of src/lib/io.c, "
        "write_data reports success only if exactly the given bytes are in the file at the descriptor's offset (one retry of the remainder "
        "after a short write), and read_data returns only bytes that are in the file at the offset, in order and without gaps, leaving the "
        "file unchanged; chunks_from_temp reports success only if the WHOLE temp file is in the output at the offset its descriptor had "
        "(chunks_from_temp_sound, from tempLoop_sound: failing seek, short or failing reads, short or failing writes). The call sites above io.c and the tools are not theorems: whole "
        "scenarios (read, validate good/damaged files, write with none/zstd/dictionary, copy chunks; zck, unzck -c, unzck --header) are run "
        "with the k-th read/write/lseek failing once for every k x {EIO, ENOSPC, EINTR, short count} and judged against the fault-free result.",
   design_ref="DESIGN.md section 7 C12",
   note="Partial: scenario level is fault enumeration (single faults, exhaustive in k), not proof; faults are injected by -Wl,--wrap in the "
        "harness and by an LD_PRELOAD shim for the tools; errno-specific behaviour beyond EINTR is not distinguished.",
   technique="Lean 4 proof (case analysis over fault outcomes, write-append lemma, induction over the read loop) + exhaustive single-fault injection as search and correspondence"),
 'C04': dict(
   text="PARTIAL proof (Lean 4) about the model of the update procedure (what zck_dl.c's main does: header fetch, scan, copy, "
        "reset, missing-range loop, truncate, validate) on top of the models of the parser, validator, copier, range builder and "
        "download callbacks.  SOUNDNESS IS PROVED for an ARBITRARY initial target, old file, hash function, regex answers, limit, "
        "fragment size and dropped transfers (update_yields_B, from validateChecksums_sound, copyChunks_sound, loop_sound, "
        "finish_sound, equal_or_collision): a run that ends without error and with every chunk marked valid leaves a target of "
        "the prescribed length, with the parsed header in front and every chunk present - which IS the server's file B byte for "
        "byte, or two different byte strings with the same chunk checksum are exhibited.  NOTHING PRESENT IS FETCHED AGAIN "
        "(request_only_missing, present_not_requested): every round's request contains only chunks marked missing, a chunk the "
        "scan found present keeps its valid mark through copy, reset and every round, and valid chunks are never modified.  "
        "COMPLETENESS IS PROVED for well-formed responses (C04Complete.lean: req_ready, round_complete, loop_complete, "
        "afterHeader_complete, update_complete, marks_of_scan, update_converges): a round's request is the list of spans of groups of adjacent extents of missing "
        "chunks; the reference server's slice for each range is the concatenation of the stored bytes of its group; with the regex "
        "oracle reading that response as intended (hypothesis Honest) the round is carried out under ANY fragment size, every "
        "requested chunk becomes valid and no other mark changes; the number of marks still 0 strictly decreases, so the loop "
        "ends without error and with every chunk valid, and the target IS B (or a collision).  Hypotheses that remain: Honest - which is SATISFIABLE for every transfer number, file length and request (refRx_honest: a "
        "reference regex function written in Lean; update_converges_ref is the closed statement with it, hypotheses about the files only) - "
        "(glibc's regexec finds the boundary and the two numbers of each Content-Range - regex semantics only: that a part header's "
        "first CRLFCRLF is its end and that the closing delimiter holds no part header are proved about the server's text, "
        "partHdr_noEarly / closing_noHeader) and that the scan marked the chunks without stored bytes valid (marks_of_scan proves the rest of the shape "
        "of the marks: one per chunk, 0 or 1, for any target and old file) - both are met on every explored run, which is what the check decides on explored "
        "inputs only: the procedure is run in-process with the real library against a reference server with every request "
        "logged, and judged (target == B, validation 1, requested bytes == extents of chunks neither verified-present nor "
        "available intact from A, none twice) over file pairs x initial targets x damaged old files x limits {1,2,3,7,127,255,-1} "
        "x fragmentations x dropped-and-retried transfers, with the model run on the same inputs; and the REAL zckdl binary of the "
        "working tree (src/zck_dl.c + libcurl) is run against a loopback HTTP range server (single-range / multipart / 200-when-"
        "too-many-ranges, uneven socket writes) and judged by the same predicate on the server's request log and the file it left.",
   design_ref="DESIGN.md section 7a C04",
   note="Partial: soundness and completeness are theorems about the model; completeness rests on the hypotheses Honest (regex oracle) and 'the scan marks chunks without stored bytes valid', which are checked on explored runs, not proved; the "
        "exact request set (nothing fetched twice across rounds) is request_only_missing + the predicate on explored runs "
        "(soundness hypotheses: the old file has the same chunk checksum type; an empty dictionary entry has no stored bytes). "
        "libcurl and zckdl's own plumbing (range back-off, --fail-no-ranges) are not modelled: they are exercised by the real-zckdl "
        "runs and judged by the predicate only.",
   technique="Lean 4 proof (invariant 'valid => present' established by the scan (induction over the index with exact-or-EOF read "
             "position), kept by copy, reset, every transfer and round; extent-wise equality of files with a running index; "
             "completeness by refinement of the request to groups of adjacent extents and induction on the number of missing marks) + "
             "differential correspondence of the whole procedure with logged requests"),
 'C11': dict(
   text="PARTIAL proof (Lean 4): the only state surviving an interruption is the target file, and the model of the procedure and "
        "every C04/C05/C09 theorem quantify over an ARBITRARY initial target; stated for crash states (the target after k complete "
        "writes of any write trace and a (k+1)-th cut after j bytes): the restart marks a chunk valid only if the bytes at its "
        "extent hash to its checksum (no partially written chunk is trusted), chunks the restart finds valid are never modified by "
        "later transfers, the scan trusts a chunk exactly when all its stored bytes are there and hash to the checksum; and C04's "
        "update_yields_B holds from any crash state: a restart that ends without error and with every chunk valid has produced B "
        "(or a collision); a chunk completely and correctly on disk at the interruption is marked valid by the restart's scan "
        "(C09 find_valid_exact) and is in no request of the restart (C04 present_not_requested / valid_not_requested).  CONVERGENCE is proved for well-formed responses (restart_converges, from C04 loop_complete): from ANY crash state the restart's fetch loop ends without error and with every chunk valid and present, hence B or a collision (hypotheses: Honest as in C04, and marks one per chunk, 0 or 1, with empty chunks valid - which marks_of_scan derives from the scan).  Decided on explored inputs: the real library is run in-process with the k-th write(2) on the "
        "target cut short (none/half/all bytes) and the run abandoned, for EVERY k of small scenarios and for chains of 2-5 "
        "interruptions; the restart is judged from the target as the interruption left it: converges to B, its scan trusts only "
        "verified-present chunks, its requests are exactly the chunks not present and not available from A.  The REAL zckdl binary "
        "is also killed (LD_PRELOAD: _exit inside the k-th write(2) on the target, none/half/all bytes stored) against the loopback "
        "range server and run again to completion, judged the same way from the file the kill left.",
   design_ref="DESIGN.md section 7 C11",
   note="Partial: convergence rests on the hypotheses of C04's completeness (checked on every kill point explored); process death is modelled as "
        "abandoning the contexts inside write(2) (siglongjmp), torn writes below write(2) granularity are not considered.",
   technique="Lean 4 proof (corollaries of the C04/C05/C09 theorems, which quantify over arbitrary initial targets) + exhaustive "
             "kill-point enumeration over write(2) calls as correspondence and search"),
 'C05': dict(
   text="PARTIAL proof (Lean 4) about the model of dl.c/multipart.c (dl_write, set_chunk_valid, zero_chunk, dl_write_range, "
        "multipart_extract, multipart_get_boundary, gen_regex, zck_write_chunk_cb, zck_header_cb), for an ARBITRARY hash function, ARBITRARY "
        "regcomp/regexec answers, ARBITRARY header lines, body bytes and fragmentation, transport stopping or not at a refusal, application "
        "clearing errors or not: (confined) no target byte outside the extents of requested, not yet valid chunks changes and valid chunks "
        "stay valid; (verified) a chunk that becomes valid holds at its extent bytes that hash to its index checksum (for every header the "
        "parser model accepts: extents proved disjoint); (mismatch) verification succeeds iff the hashed bytes have the index checksum, "
        "otherwise the extent is zero-filled, the chunk marked failed and dl_write_range / the callback return 0; (fragmentation, "
        "single-range path) dwr_split / dwr_frags_state: for ANY bytes, one dl_write_range call with a ++ b ends in exactly the state "
        "of the call with a followed - if a was taken completely and a chunk is still open, as at every cut of a well-formed payload - "
        "by the call with b, and fails exactly when that fails, lifted to any list of fragments; (completeness, single-range path) "
        "complete_single / complete_single_bytes: the stored bytes of exactly the requested chunks in request order, each hashing to "
        "its index checksum, make dl_write_range take every byte and mark every requested chunk valid, with the server's bytes at "
        "each extent or an explicit hash collision; (MULTIPART path) multipart_whole: one call of multipart_extract with a whole body of "
        "well-formed parts (any part-header text in which the pattern finds a range as long as the payload, first CRLFCRLF = end of the "
        "part header) is, for file, marks, open chunk and running checksum, exactly the payloads handed to dl_write_range one after the "
        "other; multipart_complete(_bytes): parts carrying the stored bytes of consecutive groups of the requested chunks make every "
        "requested chunk valid, change no other mark, leave the server's bytes at each extent (or a collision) and nothing else touched; "
        "multipart_frag_indep / multipart_feed_indep / multipart_complete_frags: the same body handed to multipart_extract / "
        "zck_write_chunk_cb in ANY sequence of non-empty fragments, down to one byte per call, is accepted fragment by fragment and ends "
        "in exactly the context of the single call (states between callbacks characterised by Reach; mp_step; dwr_cut).  What is NOT a "
        "theorem: that glibc's regexec finds the two numbers in a part header of the RFC 7233 shape (the oracle is a parameter: PartOk is "
        "a hypothesis) and the header callback's boundary extraction for real Content-Type lines; those, and the whole path again, are "
        "evaluated on the implementation over families of fragmentations of the same response (all 1-cut, all 2-cut in thorough, "
        "1..7-byte pieces, sampled k-cuts) against a reference server, with the model run on the same inputs.",
   design_ref="DESIGN.md section 7 C05",
   note="Partial: every clause of the property is a theorem about the model GIVEN that the regex oracle finds the range in each part header and the boundary in the Content-Type line (hypotheses PartOk / boundary known; glibc's regex semantics are not modelled) and that parts arrive in request order with non-empty payloads; empty fragments are outside the theorems (a zero-length callback mid-chunk is refused by hash_update) and covered by C17. Trusted: Lean kernel (axioms propext, Classical.choice, "
        "Quot.sound); hand-written model tied to the C by correspondence on explored inputs only; glibc regex enters as a logged oracle.",
   technique="Lean 4 proof (invariant over the six write-path fields preserved by three primitive steps, lifted generically through "
             "dl_write_range / multipart loop / callbacks by induction over fuel and fragment list; list-slice algebra for writes at "
             "offsets; split lemma for dl_write_range by strong induction; characterisation of the inter-callback states of the multipart "
             "parser and a one-callback step lemma, induction over the fragment list) + differential correspondence with exhaustive small fragmentations"),
 'C17': dict(
   text="PARTIAL proof (Lean 4), for ARBITRARY header lines, body bytes, fragmentations (empty fragments too), stop/continue/clear-error "
        "schedules, regcomp outcomes on the boundary-derived patterns, and any regexec that keeps its contract (offsets inside the "
        "subject): (safe) no callback of the model uses an allocated-but-uncompiled pattern, reads a match outside its string, follows "
        "a chunk pointer outside the index or runs out of the fuel bounding its loops (termination); the C string handed to regexec "
        "ends inside the buffer (NUL at j+3 with j+4 < end); plus C05's confinement and verification theorems, which already quantify "
        "over arbitrary input.  Heap lifetime, leaks and glibc's regex internals are outside the model: searched with ASan/UBSan and a "
        "pattern-lifetime tracker interposed on regcomp/regexec/regfree over malformed headers, boundaries and bodies.",
   design_ref="DESIGN.md section 7 C17",
   note="Partial by nature of the technique: memory safety of C is expressible in the model only as explicit ub steps (pattern state, "
        "match offsets, chunk index, fuel) and list-index bounds; the rest is sanitizer search. Hypothesis of `safe`: the constant header "
        "pattern compiles.",
   technique="Lean 4 proof (safety invariant over pattern states + ub flag, fuel-sufficiency by a decreasing measure for dl_write_range "
             "and the multipart loop, induction over fragments) + ASan/UBSan differential runs on malformed responses as search"),
 'C19': dict(
   text="PARTIAL proof (Lean 4): (1) footprint_clean, on the list of process-wide writable objects REGENERATED on every run from the library "
        "objects of the working tree (objdump -t, OpenSSL and bundled hash back ends): each is logging configuration (log_level, log_fd, "
        "callback — fixed before thread start by the premise) or is never written outside its initialiser; (2) interleaving_eq_serial: for "
        "operations that read but do not write shared storage, EVERY interleaving of any number of threads' operation sequences gives each "
        "thread exactly the state and outputs of running its own sequence alone. Tied to the code by THREADS runs of the real library under "
        "ThreadSanitizer, in a plain build and in the build with the bundled checksum code (2..16 threads, seeded workloads over "
        "write/read/validate/chunk access/copy/ranges/a download RUN through the header and write callbacks with a multipart response "
        "carrying the thread's own boundary/error and name strings, three logging modes), whose concurrent per-operation results must "
        "equal the serial ones.",
   design_ref="DESIGN.md section 7 C19",
   note="Partial: that library operations touch only their own contexts' heap objects and the footprint above is established by the "
        "generated footprint (statics) and searched by ThreadSanitizer (heap), not proved from the C semantics; libc/OpenSSL/zstd internals "
        "are trusted to be thread-safe as documented.",
   technique="Lean 4 proof (decide over the generated storage footprint; induction over the interleaving) + ThreadSanitizer runs as search and correspondence"),
}

NOT_YET = "machinery for this property is not built yet in this snapshot (work in progress; see DESIGN.md section 11 build order)"

def main():
    checks = []
    for pid in ALL:
        if pid in CLAIMED:
            c = CLAIMED[pid]
            checks.append(dict(property_id=pid,
                quick_cmd="./check.py %s --tier quick" % pid,
                thorough_cmd="./check.py %s --tier thorough" % pid,
                evidence_file="evidence/%s.json" % pid,
                replay_cmd_template="./check.py %s --replay {path}" % pid,
                engine="lean-proof+correspondence",
                level_claimed=dict(category="proof", text=c['text'], design_ref=c['design_ref']),
                level_note=c['note'], technique=c['technique']))
    na = [dict(property_id=p, reason=NOT_YET) for p in ALL if p not in CLAIMED]
    m = dict(version=1,
        setup_cmd="cd /verif && python3 gen/gen.py >/dev/null && cd lean && lake build ZckModel drv",
        hooks=dict(guard="ZCHUNK_ZCHUNK_VERIF",
                   enable="checks compile /repo/src/lib/**/*.c themselves with -DZCHUNK_ZCHUNK_VERIF (build.py); no source hooks are needed so far",
                   baseline_off_cmd="ninja -C /repo/_build && meson test -C /repo/_build",
                   source_commits=[], add_only=True),
        engines=[dict(name="lean-proof+correspondence", path="check.py",
                      serves_properties=sorted(CLAIMED),
                      kind_free_text="Lean 4 theorems about a hand-written model (lean/ZckModel), generated constants (gen/), "
                                     "C harness on the real sources (harness/zdrv.c), native Lean driver (lean/Driver.lean)")],
        checks=checks, not_applicable=na,
        notes="Genuine defects repaired in /repo with 'fix:' commits are listed in known_findings.json (status fixed).")
    json.dump(m, open(os.path.join(VERIF, 'MANIFEST.json'), 'w'), indent=1)

if __name__ == '__main__':
    main()
