#!/usr/bin/env python3
"""Writes MANIFEST.json from the table below (kept in one place so it is always valid)."""
import json, os
VERIF = os.path.dirname(os.path.abspath(__file__))
ALL = ['C%02d' % i for i in range(1, 21)]

CLAIMED = {
 'C20': dict(
   text="Machine-checked proof (Lean 4) that the model of compint.c decodes exactly the mathematical value or fails "
        "(unterminated / >10 bytes / does not fit), never reads out of bounds, and round-trips every 64-bit value; the model "
        "is tied to the code by generated constants and by a differential correspondence run (real compint.c against a guard page).",
   design_ref="DESIGN.md section 7 C20",
   note="Trusted: Lean kernel; axioms propext, Classical.choice, Quot.sound only; gen/gen.py; harness/zdrv.c + generators "
        "(agreement on explored inputs, not all inputs); calling convention of compint_to_size (cursor = buf+*length, max_length = buffer size).",
   technique="Lean 4 proof (induction over the decode loop, refinement to exact base-128 value) + differential correspondence"),
 'C10': dict(
   text="Machine-checked proof (Lean 4) that the model of range.c (range_add walk, range_merge_combined, the limit loop of "
        "zck_get_missing_range, the snprintf/growth loop of zck_get_range_char) refines the specification 'coalesced extents of a "
        "prefix of the missing chunks' for every index, validity vector and limit, and that the specification is ascending, "
        "non-adjacent, covers exactly those extents, respects max(limit,1) and renders as the comma-separated list; tied to the "
        "code by a differential correspondence run of the real range.c, with the decidable predicate evaluated on its output.",
   design_ref="DESIGN.md section 7 C10",
   note="Trusted: Lean kernel; axioms propext, Classical.choice, Quot.sound only; gen/gen.py (BUF_SIZE); harness/ops_range.h builds the "
        "index through index_new_chunk and sets valid flags directly; agreement on explored inputs only.",
   technique="Lean 4 proof (refinement of the list model to a coalescing specification, induction over the chunk list) + differential correspondence"),
 'C18': dict(
   text="Machine-checked proof (Lean 4) that the streaming structure of the bundled SHA-256 / SHA-512 / SHA-512-128 code (update "
        "buffer arithmetic, final padding, counter widths generated from the C source) computes the FIPS 180-4 digest for every "
        "message below 2^61 bytes and every segmentation into update calls, generically in the compression function; generated "
        "K tables / initial values proved equal to the FIPS constants; three-way correspondence (bundled build, OpenSSL build, Lean).",
   design_ref="DESIGN.md section 7 C18",
   note="Partial where stated: SHA-1's bundled update/final are modelled and corresponded but their equality with the spec is not proved; "
        "the compression functions are compared on explored messages (they are the Lean spec's own executable definitions); OpenSSL is a "
        "trusted external; messages >= 2^29 bytes are compared between the C builds and hashlib only.",
   technique="Lean 4 proof (invariant over update calls, refinement of streaming hash to Merkle-Damgard spec; decide on generated tables) + three-way differential correspondence"),
 'C06': dict(
   text="Machine-checked proof (Lean 4) about the model of read_lead + read_header_from_file: open succeeds only if the stored checksum "
        "equals H(fixed magic ++ lead before the checksum ++ whole remaining header); these regions plus the stored checksum partition "
        "every header byte; two files passing the gate with the same geometry and the same stored checksum (or the same hashed bytes) have "
        "identical headers after the identifier or exhibit an explicit hash collision. Tied to the code by exhaustive single-byte mutation "
        "of valid headers (every position x 255 values) run on the real library and on the model.",
   design_ref="DESIGN.md section 7 C06",
   note="Trusted: Lean kernel (axioms propext, Classical.choice, Quot.sound); hand-written model of header.c checked by correspondence on "
        "explored files only; hash function is a parameter of the theorems (collisions stated, not assumed away).",
   technique="Lean 4 proof (unfolding of the monadic parser model, list-slice algebra, collision-or-equal argument) + exhaustive differential mutation"),
 'C07': dict(
   text="Machine-checked proof (Lean 4): hex_to_int accepts exactly 0-9a-fA-F with the right value (all byte values), "
        "ascii_checksum_to_bin succeeds exactly on hex strings and returns their value, the digest setter's acceptance condition, and "
        "read_lead accepts under pins iff it accepts without pins and each pinned value equals the stored one; with the C06 gate a pinned "
        "open authenticates the header bytes. Tied to the code by OPEN ops with all 256 byte values at every digest position.",
   design_ref="DESIGN.md section 7 C07",
   note="Trusted: as C06; the setter ordering rules and zck_validate_lead are modelled and corresponded, the validate-then-open equivalence is not a theorem.",
   technique="Lean 4 proof (case analysis over byte ranges, induction over digit pairs, iff over the monadic lead parser) + differential correspondence"),
 'C13': dict(
   text="Machine-checked proof (Lean 4) about the model of read_lead/read_preface/index_read/read_sig: on success the reported count equals "
        "the number of chunks and is >= 1, chunk numbers and start offsets are exact running sums, header+data length and every size fit "
        "ssize_t, int-sized fields that do not fit are rejected, and no read leaves the header buffer. Equality of the full report with an "
        "independent reference parser (Lean, from zchunk_format.txt) is evaluated on the implementation's output for every generated header.",
   design_ref="DESIGN.md section 7 C13",
   note="Partial: 'report = reference parser' is a checked predicate on explored inputs (valid and re-sealed mutant headers), not a theorem; "
        "the theorems cover offsets/count/overflow-rejection/bounds of the model. Model tied to code by correspondence only.",
   technique="Lean 4 proof (induction over the index-entry loop, invariants on running sums) + differential correspondence against an independent Lean reference parser"),
}

NOT_YET = "machinery for this property is not built yet in this snapshot (work in progress; see DESIGN.md section 11 build order)"

def main():
    checks = []
    for pid in ALL:
        if pid in CLAIMED:
            c = CLAIMED[pid]
            checks.append(dict(property_id=pid,
                quick_cmd="./check.py %s --tier quick" % pid,
                thorough_cmd="./check.py %s --tier thorough" % pid,
                evidence_file="evidence/%s.json" % pid,
                replay_cmd_template="./check.py %s --replay {path}" % pid,
                engine="lean-proof+correspondence",
                level_claimed=dict(category="proof", text=c['text'], design_ref=c['design_ref']),
                level_note=c['note'], technique=c['technique']))
    na = [dict(property_id=p, reason=NOT_YET) for p in ALL if p not in CLAIMED]
    m = dict(version=1,
        setup_cmd="cd /verif && python3 gen/gen.py >/dev/null && cd lean && lake build ZckModel drv",
        hooks=dict(guard="ZCHUNK_ZCHUNK_VERIF",
                   enable="checks compile /repo/src/lib/**/*.c themselves with -DZCHUNK_ZCHUNK_VERIF (build.py); no source hooks are needed so far",
                   baseline_off_cmd="ninja -C /repo/_build && meson test -C /repo/_build",
                   source_commits=[], add_only=True),
        engines=[dict(name="lean-proof+correspondence", path="check.py",
                      serves_properties=sorted(CLAIMED),
                      kind_free_text="Lean 4 theorems about a hand-written model (lean/ZckModel), generated constants (gen/), "
                                     "C harness on the real sources (harness/zdrv.c), native Lean driver (lean/Driver.lean)")],
        checks=checks, not_applicable=na,
        notes="Genuine defects repaired in /repo with 'fix:' commits are listed in known_findings.json (status fixed).")
    json.dump(m, open(os.path.join(VERIF, 'MANIFEST.json'), 'w'), indent=1)

if __name__ == '__main__':
    main()
